#!/usr/bin/env python3
"""Regenerate MANIFEST.json from the property modules that exist (keeps it valid at all times)."""
import json, os, sys
ROOT = os.path.dirname(os.path.dirname(os.path.abspath(__file__)))
sys.path.insert(0, ROOT)
props = [json.loads(l) for l in open(os.path.join(ROOT, 'properties.jsonl'))]
notes = json.load(open(os.path.join(ROOT, 'manifest_notes.json')))
checks, na = [], []
for p in props:
    pid = p['id']
    n = notes['checks'].get(pid)
    if n and os.path.exists(os.path.join(ROOT, 'vfw', 'props', pid.lower() + '.py')):
        checks.append(dict(
            property_id=pid,
            quick_cmd=f'bin/vcheck run {pid} --tier quick',
            thorough_cmd=f'bin/vcheck run {pid} --tier thorough',
            evidence_file=f'/verif/evidence/{pid}.json',
            replay_cmd_template='bin/vcheck replay {path}',
            engine='zsym',
            level_claimed=dict(category='other', text=n['text'], design_ref=n.get('design_ref', 'DESIGN.md §7 ' + pid)),
            level_note=n['note'],
            technique=n.get('technique', 'bounded symbolic execution of the real Python code (z3 proxies on a virtual-time asyncio loop); SMT-discharged obligations and closure query; counterexamples replayed concretely'),
        ))
    else:
        na.append(dict(property_id=pid, reason=notes['not_applicable'].get(pid, 'check not built yet (work in progress); no claim is made')))
m = dict(
    version=1,
    setup_cmd='bash bin/setup.sh',
    hooks=dict(guard='BUBUS_VERIF', enable='none needed: no hooks are compiled into /repo; checks observe through the public API and attribute assignment',
               baseline_off_cmd='cd /repo && /venv/bin/python -m pytest -ra -q -p no:cacheprovider --timeout=900 --continue-on-collection-errors',
               source_commits=[], add_only=True),
    engines=[dict(name='zsym', path='vfw/', serves_properties=[c['property_id'] for c in checks],
                  kind_free_text='dynamic symbolic execution of the real bubus code: z3 proxy values (durations, instants, counts, flags, fault choices) on a virtual-time asyncio loop, replay-based DFS over solver-feasible branches, per-region SMT obligations, closure query, cvc5 re-discharge in the thorough tier, z3-free concrete replay of every counterexample')],
    checks=checks,
    notes=notes.get('notes', ''),
    not_applicable=na,
)
json.dump(m, open(os.path.join(ROOT, 'MANIFEST.json'), 'w'), indent=1)
print('checks', [c['property_id'] for c in checks], 'n/a', [x['property_id'] for x in na])
