#!/usr/bin/env python3
"""Update seeded/*/meta.json with the latest check results from seedcheck logs and print the DESIGN.md table."""
import json, os, re, sys
log = ''.join(open(f).read() for f in sys.argv[1:])
rows = []
for d in sorted(os.listdir('/verif/seeded')):
    p = f'/verif/seeded/{d}'
    if not os.path.isdir(p):
        continue
    m = json.load(open(f'{p}/meta.json'))
    cs = re.findall(r"CHECK seed=%s prop=\S+ rc=(\d+) (\d+) violations;(.*)" % re.escape(p), log)
    if cs:
        c = cs[-1]
        m['current_check_run'] = dict(cmd=f'VFW_REPO=<patched worktree> bin/vcheck run {m["property"]} --tier quick', rc=int(c[0]),
                                      violated_clauses=', '.join(sorted(set(re.findall(r'(C\d\d\.[\w.]+)', c[2])))), detected=(c[0] == '1'),
                                      note='most of these runs used VFW_EARLY_STOP=1 (stop after the first job that reports a violation): the clause list may be a subset of what a full run reports')
        json.dump(m, open(f'{p}/meta.json', 'w'), indent=1)
    n = open(f'{p}/NOTES.md').read().strip().splitlines()
    title = [x for x in n if x.strip()][0].lstrip('# ').strip()
    title = re.sub(r'^(C\d\d\s*)?(round\s*\d\s*)?seed\s*\d\s*[-–—:]*\s*', '', title, flags=re.I)[:100].replace('|', '/')
    if 'first_version_of_checks' in m:
        base = 'yes' if m['first_version_of_checks']['detected'] else 'no'
    else:
        base = 'yes' if m['baseline_check_run']['detected'] else 'no'
    cur = m.get('current_check_run', {})
    rows.append(f"| {d} | {title} | {base} | {'yes' if cur.get('detected') else '**no**'} | {cur.get('violated_clauses', '')[:110]} |")
print('\n'.join(rows))
