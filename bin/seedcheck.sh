#!/bin/bash
# seedcheck.sh <seed dir with patch.diff + demo.py> <PROP> [more props...]
# 1. confirms the seeded change in a scratch worktree: demo passes without it, fails with it, unedited suite passes with it
# 2. runs the given checks (quick tier) against the patched scratch worktree (VFW_REPO) and reports their exit codes
SEED="$(cd "$1" && pwd)"; shift
NAME=$(echo "$SEED" | tr '/' '_')
WT=/tmp/sv/$NAME
mkdir -p /tmp/sv; git -C /repo worktree remove --force "$WT" >/dev/null 2>&1
git -C /repo worktree add --detach "$WT" HEAD -q >/dev/null 2>&1 || { echo "worktree failed"; exit 3; }
trap 'git -C /repo worktree remove --force "$WT" >/dev/null 2>&1' EXIT
cd "$WT"
cp "$SEED/demo.py" "$WT/_demo.py"
timeout 120 /venv/bin/python _demo.py >/dev/null 2>&1; A=$?
git apply "$SEED/patch.diff" 2>/dev/null || git apply --3way "$SEED/patch.diff" || { echo "RESULT seed=$SEED patch-does-not-apply"; exit 3; }
timeout 120 /venv/bin/python _demo.py >/dev/null 2>&1; B=$?
if [ -z "$SKIP_SUITE" ]; then
  mkdir -p /tmp/sv/tmp_$NAME; T=$(TMPDIR=/tmp/sv/tmp_$NAME timeout 900 /venv/bin/python -m pytest -q -p no:cacheprovider --timeout=900 -q 2>&1 | tail -1)
else T="(suite skipped)"; fi
echo "CONFIRM seed=$SEED demo_clean_rc=$A demo_patched_rc=$B suite='$T'"
rm -f "$WT/_demo.py"
for P in "$@"; do
  OUT=/tmp/sv/out_$NAME; rm -rf "$OUT"; mkdir -p "$OUT"
  VFW_REPO="$WT" VFW_OUT="$OUT" timeout 1500 ${VCHECK:-/verif/bin/vcheck} run $P --tier ${TIER:-quick} > "$OUT/log.txt" 2>&1; RC=$?
  echo "CHECK seed=$SEED prop=$P rc=$RC $(grep -c '^VIOLATION' $OUT/log.txt) violations; $(grep -A1 '^VIOLATION' $OUT/log.txt | grep clause | sed 's/ template.*//' | sort | uniq -c | tr '\n' ';')"
  grep '^INCONCLUSIVE' "$OUT/log.txt" | head -3
done
