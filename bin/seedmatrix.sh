#!/bin/bash
# seedmatrix.sh <seed dir> <family> [tier]: run a scenario family (all clauses) against a patched scratch worktree
SEED="$(cd "$1" && pwd)"; FAM=$2; TIER=${3:-quick}
NAME=m_$(echo "$SEED" | tr '/' '_')
WT=/tmp/sv/$NAME
mkdir -p /tmp/sv; git -C /repo worktree remove --force "$WT" >/dev/null 2>&1
git -C /repo worktree add --detach "$WT" HEAD -q >/dev/null 2>&1 || exit 3
trap 'git -C /repo worktree remove --force "$WT" >/dev/null 2>&1' EXIT
cd "$WT" && git apply "$SEED/patch.diff" || exit 3
cd /verif
PYTHONPATH="$WT:/verif" PYTHONDONTWRITEBYTECODE=1 /verif/.venv/bin/python /verif/bin/vmatrix.py $FAM $TIER 2>&1 | grep "^==\|^jobs\|^ERROR" | grep -v "C05" | tr '\n' ' '
echo " <- $SEED"
