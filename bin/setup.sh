#!/bin/bash
# Build the overlay venv (offline): /venv's site-packages + /repo on the path, z3/cvc5/crosshair from the wheelhouse.
set -e
V=/verif/.venv
if [ ! -x "$V/bin/python" ] || ! "$V/bin/python" -c "import z3, cvc5, bubus" >/dev/null 2>&1; then
  rm -rf "$V"
  /venv/bin/python -m venv "$V"
  printf '/venv/lib/python3.12/site-packages\n/repo\n' > "$V/lib/python3.12/site-packages/base.pth"
  PIP_NO_INDEX=1 "$V/bin/pip" install -q --no-index --find-links /opt/veriftools/wheels z3-solver cvc5 crosshair-tool >/dev/null 2>&1 \
    || PIP_NO_INDEX=1 "$V/bin/pip" install -q --no-index --find-links /opt/veriftools/wheels z3-solver cvc5
fi
"$V/bin/python" -c "import z3, bubus; print('venv ok: z3', z3.get_version_string(), 'bubus from', bubus.__file__)"
