#!/usr/bin/env python3
"""storeseeds.py <src root> <suffix offset> <round label> <logs...>: copy confirmed seeds into /verif/seeded/<PROP>-<k+offset>
with meta.json built from seedcheck logs (last CONFIRM / CHECK line per seed wins)."""
import json, os, re, shutil, sys
root, off, label = sys.argv[1], int(sys.argv[2]), sys.argv[3]
log = ''.join(open(f).read() for f in sys.argv[4:])
for pid in [f'C{i:02d}' for i in range(1, 21)]:
    for k in (1, 2):
        src = f'{root}/{pid}/seed{k}'
        if not os.path.exists(f'{src}/patch.diff') or not os.path.exists(f'{src}/NOTES.md'):
            print('skip', src); continue
        ms = re.findall(r"CONFIRM seed=%s demo_clean_rc=(\d+) demo_patched_rc=(\d+) suite='([^']*)'" % re.escape(src), log)
        cs = re.findall(r"CHECK seed=%s prop=%s rc=(\d+) (\d+) violations;(.*)" % (re.escape(src), pid), log)
        if not ms or not cs:
            print('no log for', src); continue
        m, c = ms[-1], cs[-1]
        if not (m[0] == '0' and m[1] != '0' and '138 passed' in m[2]):
            print('NOT CONFIRMED', src, m); continue
        dst = f'/verif/seeded/{pid}-{k + off}'
        os.makedirs(dst, exist_ok=True)
        for f in ('patch.diff', 'demo.py', 'NOTES.md', 'patch.orig.diff'):
            if os.path.exists(f'{src}/{f}'):
                shutil.copy(f'{src}/{f}', f'{dst}/{f}')
        notes = open(f'{src}/NOTES.md').read()
        meta = dict(property=pid, round=label,
                    origin='written by an independent sub-agent that was given only the property text, a scratch worktree and the one-line titles of the changes of earlier rounds for that property to avoid; nothing from /verif',
                    needs_to_manifest=notes[:1500],
                    confirmed=dict(how='bin/seedcheck.sh: scratch worktree of /repo HEAD; demo without the change, demo with the change, unedited suite with the change (private TMPDIR)',
                                   demo_clean_rc=int(m[0]), demo_patched_rc=int(m[1]), suite=m[2].strip('= ')),
                    rebased=os.path.exists(f'{src}/patch.orig.diff'),
                    baseline_check_run=dict(version='checks as they were when this round was produced', cmd=f'VFW_REPO=<patched worktree> bin/vcheck run {pid} --tier quick',
                                            rc=int(c[0]), violated_clauses=re.sub(r'\s+', ' ', c[2]).strip(), detected=(c[0] == '1')))
        json.dump(meta, open(f'{dst}/meta.json', 'w'), indent=1)
        print(dst, 'detected' if c[0] == '1' else 'missed')
