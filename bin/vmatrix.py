#!/verif/.venv/bin/python
"""Dev aid: run a scenario family on the current tree with ALL clause families gating and summarise violations
by clause and scenario (used to classify known findings before a family is added to the property checks).
usage: bin/vmatrix.py m1 quick"""
import collections, multiprocessing as mp, os, sys
sys.path.insert(0, os.path.dirname(os.path.dirname(os.path.abspath(__file__))))
import vfw.runner as R
from vfw import scenlib as S
from vfw.props._common import mk

R.load_known = lambda p: []


def jobs(fam, tier):
    out = []
    if fam == 'm1':
        for row in S.matrix1_rows(tier):
            out += mk('*', S.matrix1_id(*row), S.matrix1(*row))
    elif fam == 'm3':
        for i in S.matrix3_rows(tier):
            out += mk('*', f'm3/{i}', S.seq_program(i, ('d1',) if tier == 'quick' else ('d1', 'd2', 't1')))
    elif fam == 'm2':
        for row in S.matrix2_rows(tier):
            out += mk('*', S.matrix2_id(*row), S.matrix2(*row))
    elif fam == 'm4':
        for i in S.matrix4_rows(tier):
            out += mk('*', f'm4/{i}', S.seq_program(i, ('d1', 'b') if tier == 'quick' else ('d1', 'd2', 't1', 'b'), ext=True))
    return out


def run(i):
    j = JOBS[i]
    j.max_paths = 3000
    o = R.explore_job(j)
    return j.cfg['scenario'], o['regions'], o['wall_s'], o['errors'], [(v['clause'], str(v['info'])[:160], v['model']) for v in o['violations']], o['exhaustive']


if __name__ == '__main__':
    fam, tier = sys.argv[1], sys.argv[2]
    JOBS = jobs(fam, tier)
    with mp.get_context('fork').Pool(16) as pool:
        res = pool.map(run, range(len(JOBS)))
    tot = sum(r[1] for r in res)
    print('jobs', len(res), 'regions', tot, 'cpu_s', round(sum(r[2] for r in res), 1), 'non-exhaustive', sum(1 for r in res if not r[5]))
    by = collections.defaultdict(list)
    for sid, n, w, errs, viols, exh in res:
        for e in errs:
            print('ERROR', sid, e[:300])
        for (c, info, model) in viols:
            by[c].append((sid, info, model))
    for c, lst in sorted(by.items()):
        print('==', c, len(lst))
        seen = set()
        for sid, info, model in lst:
            if sid in seen:
                continue
            seen.add(sid)
            print('   ', sid, info[:140], model)
