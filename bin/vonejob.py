#!/verif/.venv/bin/python
"""Dev aid: run one job of a property (index into jobs(tier)) with an optional path cap and print timing.
usage: bin/vonejob.py C16 0 [max_paths] [tier]"""
import importlib, os, sys, time
sys.path.insert(0, os.path.dirname(os.path.dirname(os.path.abspath(__file__))))
import vfw.runner as R
pid, idx = sys.argv[1], int(sys.argv[2])
mp = int(sys.argv[3]) if len(sys.argv) > 3 and sys.argv[3] != '-' else None
tier = sys.argv[4] if len(sys.argv) > 4 else 'quick'
mod = importlib.import_module('vfw.props.' + pid.lower())
job = mod.jobs(tier)[idx]
if mp:
    job.max_paths = mp
out = R.explore_job(job)
print(job.template, {k: v for k, v in job.cfg.items() if k in ('scenario', 'mode', 'timeout', 'box', 'order')}, 'regions', out['regions'], 'exh', out['exhaustive'],
      'wall', out['wall_s'], 'q', out['branch_queries'], 'solver', out['solver_s'], 'viol', len(out['violations']), out['errors'][:1], out['witnesses'])
for v in out['violations'][:4]:
    print('  ', v['clause'], v['model'], str(v['info'])[:200])
