#!/verif/.venv/bin/python
"""Debug aid: list, per explored region, whether a clause is violated, with a sample model.
usage: bin/vregions.py C04 other_running/yield/AB C04.child_complete [tier]"""
import os, sys
sys.path.insert(0, os.path.dirname(os.path.dirname(os.path.abspath(__file__))))
pid, scen, clause = sys.argv[1:4]
tier = sys.argv[4] if len(sys.argv) > 4 else 'quick'
os.environ['VFW_DEBUG_REGIONS'] = clause
import importlib
import vfw.runner as R
R.load_known = lambda p: []
mod = importlib.import_module('vfw.props.' + pid.lower())
for job in mod.jobs(tier):
    if job.cfg.get('scenario', job.template) != scen:
        continue
    out = R.explore_job(job)
    print('regions', out['regions'], 'errors', out['errors'], 'box', job.cfg.get('box'))
    for tag, model, pc in sorted(out.get('debug', []), key=lambda x: str(sorted(x[1].items()))):
        print(tag, model)
