import asyncio, logging, sys, warnings, itertools
sys.path.insert(0, '/tmp/probe')
warnings.simplefilter('ignore')
from vloop import VLoop, Deadlock
import importlib; u7 = importlib.import_module("uuid_extensions.uuid7")
from bubus import EventBus, BaseEvent
logging.getLogger('bubus').disabled = True

_ctr = [0]
def fake_ns():
    _ctr[0] += 1000
    return 1_700_000_000_000_000_000 + _ctr[0]
d = list(u7.uuid7.__defaults__)
print(u7.uuid7.__defaults__, file=sys.stderr)

class P(BaseEvent): pass
class C(BaseEvent): pass

def scen(d1: int, d2: int) -> bool:
    """
    pre: 0 <= d1 <= 30
    pre: 0 <= d2 <= 30
    post: _ == True
    """
    _ctr[0] = 0
    u7.uuid7.__defaults__ = (None, None, fake_ns, [0,0,0,0], [0,0,0,0])
    bus = EventBus(name='B1')
    log = []
    async def hC(ev):
        await asyncio.sleep(d2 / 100); return 'c'
    async def hP(ev):
        await asyncio.sleep(d1 / 100)
        c = bus.dispatch(C())
        await c
        log.append(c.event_status)
        return 'p'
    bus.on(P, hP); bus.on(C, hC)
    res = {}
    async def main():
        p = bus.dispatch(P(event_timeout=0.2))
        await bus.wait_until_idle()
        res['p'] = p.event_status
        await bus.stop(clear=True)
    loop = VLoop()
    loop.max_steps = 5000
    try:
        loop.run_until_complete(main())
    except Deadlock:
        EventBus.all_instances.discard(bus)
        return False
    return res.get('p') == 'completed'
