import sys, warnings, logging, importlib
from typing import List, Tuple
warnings.simplefilter('ignore')
u7 = importlib.import_module("uuid_extensions.uuid7")
from bubus import EventBus
logging.getLogger('bubus').disabled = True
_ctr = [0]
def fake_ns():
    _ctr[0] += 1000
    return 1_700_000_000_000_000_000 + _ctr[0]

class TS:
    def __init__(self, t): self.t = t
    def timestamp(self): return self.t
class Ev:
    def __init__(self, st, t):
        self.event_status = ('pending', 'started', 'completed')[st]
        self.event_created_at = TS(t)
        self.event_started_at = 1 if st >= 1 else None
        self.event_completed_at = 1 if st == 2 else None

def cleanup_ok(n: int, evs: List[Tuple[int, int]]) -> bool:
    """
    pre: 1 <= n <= 4
    pre: len(evs) <= 5
    pre: all(0 <= s <= 2 for s, t in evs)
    post: _ == True
    """
    _ctr[0] = 0
    u7.uuid7.__defaults__ = (None, None, fake_ns, [0,0,0,0], [0,0,0,0])
    bus = EventBus(name='K', max_history_size=n)
    EventBus.all_instances.discard(bus)
    objs = {}
    for i, (s, t) in enumerate(evs):
        objs[str(i)] = Ev(s, t)
    bus.event_history = dict(objs)
    before = len(objs)
    bus.cleanup_event_history()
    kept = set(bus.event_history)
    if len(kept) != min(before, n):
        return False
    removed = [k for k in objs if k not in kept]
    rank = {'completed': 0, 'started': 1, 'pending': 2}
    for r in removed:
        for k in kept:
            rr, rk = rank[objs[r].event_status], rank[objs[k].event_status]
            if rr > rk:
                return False          # evicted a more-in-flight event while a less-in-flight one stays
            if rr == rk and objs[r].event_created_at.t > objs[k].event_created_at.t:
                return False          # not oldest first
    return True
