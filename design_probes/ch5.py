from typing import Optional
from bubus.helpers import _calculate_semaphore_timeout, _get_semaphore_key

def st_ok(st: Optional[int], timeout: int, limit: int) -> float:
    """
    pre: 1 <= limit <= 50
    pre: 1 <= timeout <= 100
    pre: st is None or 0 <= st <= 1000
    post: _ > 0
    post: (_ == st) if (st is not None and st != 0) else True
    post: (_ >= timeout) if st is None else True
    """
    return _calculate_semaphore_timeout(st, timeout, limit)
