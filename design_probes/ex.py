import gc, time, weakref, warnings, logging, sys
sys.path.insert(0, '/tmp/probe')
warnings.simplefilter('ignore')
import z3, sym
from sym import Driver, SymReal, SymBool
from vloop import VLoop, Deadlock
import bubus.service as svc, bubus.helpers as hp
from bubus import EventBus, BaseEvent
logging.getLogger('bubus').disabled = True
logging.getLogger('bubus.helpers').disabled = True
hp._check_system_overload_if_needed = lambda: None

def reset():
    EventBus.all_instances = weakref.WeakSet()
    svc._global_eventbus_lock = None

def explore(run, dom, maxpaths=20000, keep_sem=False):
    drv = Driver(dom); sym.DRIVER = drv
    t0 = time.time(); n = 0; outcomes = {}
    while True:
        drv.start_path(); reset()
        if not keep_sem: hp.GLOBAL_RETRY_SEMAPHORES.clear()
        key = str(run())
        n += 1
        if key not in outcomes:
            m = drv.model()
            outcomes[key] = [0, {str(d): str(m[d]) for d in m.decls()}]
        outcomes[key][0] += 1
        if not drv.next_prefix(): break
        if n >= maxpaths: print('BUDGET'); break
        if n % 200 == 0: gc.collect()
    print('paths', n, 'classes', len(outcomes), 'queries', drv.n_queries, 'solver_s', round(drv.solver_time, 2), 'wall', round(time.time() - t0, 2))
    for k, v in outcomes.items(): print(' ', v[0], v[1], k[:400])
    return outcomes
