import asyncio, logging, time, sys
sys.path.insert(0, '/tmp/probe')
from vloop import VLoop, Deadlock
from bubus import EventBus, BaseEvent
logging.getLogger('bubus').setLevel(logging.CRITICAL)

class A(BaseEvent): pass
class B(BaseEvent): pass

def scenario_F1():
    """2 buses, handler on bus1 dispatches child to bus2, yields, awaits."""
    b1 = EventBus(name='B1'); b2 = EventBus(name='B2')
    log = []
    async def hB(ev):
        log.append(('hB', asyncio.get_event_loop().time())); return 'b'
    async def hA(ev):
        c = b2.dispatch(B())
        await asyncio.sleep(0.01)
        await c
        log.append(('child status', c.event_status, c.event_completed_signal.is_set()))
        return 'a'
    b1.on(A, hA); b2.on(B, hB)
    async def main():
        e = b1.dispatch(A())
        await e
        log.append(('done', asyncio.get_event_loop().time()))
        await b1.stop(); await b2.stop()
    return main, log

loop = VLoop()
main, log = scenario_F1()
t0 = time.time()
try:
    loop.run_until_complete(main())
except Deadlock as e:
    print('DEADLOCK', e)
print(log, 'steps', loop.n_steps, 'vtime', loop.time(), 'wall', time.time()-t0)
