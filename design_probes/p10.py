from ex import *
from sym import SymInt
import asyncio, typing
from bubus.models import EventResult
import bubus.models as models
import bubus.service as svc
from pydantic import BaseModel

print('--- C14 kernel: real dispatch() from symbolic backlog (q queued via qsize(), p pending in history), inside a handler')
Q, Pn = z3.Int('q'), z3.Int('p')
dom = [Q >= 0, Q <= 60, Pn >= 0, Pn <= 3]      # p small concrete-ish (forked), q fully symbolic
class C(BaseEvent): pass
class Par(BaseEvent): pass
class SQ(svc.CleanShutdownQueue):
    def qsize(self): return SymInt(Q) + len(self._queue)
def run():
    res = {}
    async def main():
        bus = EventBus(name='B')
        bus._start(); bus._is_running = True
        bus.event_queue = SQ(maxsize=50)
        n = SymInt(Pn).__index__()
        for i in range(n):
            e = C(); bus.event_history[e.event_id] = e
        # fake "inside handler of parent" context exactly as execute_handler sets it
        parent = Par(); bus.event_history[parent.event_id] = parent
        async def h(ev): pass
        r = parent.event_result_update(handler=h, eventbus=bus, status='started')
        svc._current_event_context.set(parent); svc.inside_handler_context.set(True); svc._current_handler_id_context.set(r.handler_id)
        child = C()
        try:
            bus.dispatch(child); res['out'] = 'accepted'
        except BaseException as ex:
            res['out'] = type(ex).__name__
        res['in_hist'] = child.event_id in bus.event_history
        res['queued'] = child in list(bus.event_queue._queue)
        res['is_child'] = child in r.event_children
        res['path'] = list(child.event_path)
        bus._is_running = False
    loop = VLoop(); loop.run_until_complete(main())
    return res
explore(run, dom)

print('--- C12 kernel: real EventResult.update(result=v) with TypeAdapter stubbed nondeterministically; type-shape catalogue concrete')
OK = z3.Bool('validator_accepts')
class M(BaseModel):
    x: int = 0
class StubTA:
    def __init__(self, t): self.t = t
    def validate_python(self, v):
        if SymBool(OK): return ('validated', v)
        raise ValueError('stub: does not conform')
class StubModel(M):
    @classmethod
    def model_validate(cls, v):
        if SymBool(OK): return ('validated', v)
        raise ValueError('stub: does not conform')
models.TypeAdapter = StubTA
for name, T in [('int', int), ('list[int]', list[int]), ('int|None', int | None), ('Optional[str]', typing.Optional[str]), ('Literal', typing.Literal['a', 'b']), ('BaseModel', StubModel)]:
    def run():
        r = EventResult(event_id='00000000-0000-0000-0000-000000000001', handler_id='1.1', handler_name='h', eventbus_id='1', eventbus_name='B', result_type=T)
        r.update(status='started')
        r.update(result=7)
        return (r.status, r.result, type(r.error).__name__)
    print(name); explore(run, [])
