from ex import *
from sym import SymInt
import asyncio
import vloop

class ActorLoop(VLoop):
    """VLoop with actors fired before the k-th handle (k symbolic)."""
    def __init__(self):
        super().__init__(); self.actors = []
    def _run_once(self):
        if not self._ready:
            while self._timers and self._timers[0][2]._cancelled: self._timers.pop(0)
            if not self._timers: raise Deadlock('no runnable task and no timer')
            when = self._timers[0][0]
            if self._now < when: self._now = when
        while self._timers:
            when, _, h = self._timers[0]
            if h._cancelled: self._timers.pop(0); continue
            if when <= self._now:
                self._timers.pop(0); self._ready.append(h)
            else: break
        n = len(self._ready)
        for _ in range(n):
            h = self._ready.popleft()
            if h._cancelled: continue
            self.n_steps += 1
            for a in list(self.actors):
                if SymBool(a[0].e == self.n_steps):
                    self.actors.remove(a); a[1]()
            if self.n_steps > self.max_steps: raise Deadlock('step budget')
            h._run()

class P(BaseEvent): pass
K = z3.Int('k'); D = z3.Real('d')
dom = [K >= 1, K <= 60, D >= 0, D <= 0.3]
def run():
    bus = EventBus(name='B'); log = []
    async def h(ev): log.append('enter'); await asyncio.sleep(SymReal(D)); log.append('exit')
    bus.on(P, h)
    loop = ActorLoop(); res = {}
    tasks = {}
    def cancel_all():
        res['cancel_at_step'] = loop.n_steps
        res['t_cancel'] = loop.time()
        tasks['c'] = [t for t in asyncio.all_tasks(loop) if not t.done() and t is not tasks['main']]
        for t in tasks['c']: t.cancel()
    loop.actors.append((SymInt(K), cancel_all))
    async def main():
        bus.dispatch(P()); bus.dispatch(P())
        while 'c' not in tasks:            # wait for the actor to fire (step index is bounded)
            await asyncio.sleep(0.01)
        await asyncio.sleep(1.0)           # one virtual second after the cancellation
        res['undone_1s_after_cancel'] = sorted(t.get_coro().__qualname__ for t in tasks['c'] if not t.done())
    tasks['main'] = loop.create_task(main())
    loop.run_until_complete(tasks['main'])
    res.pop('cancel_at_step', None); res.pop('t_cancel', None)
    return res
if __name__ == '__main__':
    out = explore(run, dom, maxpaths=5000)
