from ex import *
import asyncio
class W(BaseEvent): pass
class A(BaseEvent): pass
class C(BaseEvent): pass
class X(BaseEvent):
    n: int = 0
D1, T1 = z3.Reals('d1 t1')
dom = [D1 >= 0, D1 <= 0.3, T1 >= 0, T1 <= 0.3]
def run():
    b1 = EventBus(name='B1'); b2 = EventBus(name='B2'); log = []
    async def hX(ev): log.append(f'X{ev.n}')
    async def hC(ev): log.append('C')
    async def hA(ev):
        await asyncio.sleep(SymReal(D1))
        log.append('await-begin'); await b1.dispatch(C()); log.append('await-end')
    b1.on(A, hA); b1.on(C, hC); b2.on(X, hX)
    async def ext():
        await asyncio.sleep(SymReal(T1))
        b2.dispatch(X(n=1)); b2.dispatch(X(n=2))
    async def main():
        await b2.dispatch(W()); await b1.dispatch(W())
        a = b1.dispatch(A()); t = asyncio.ensure_future(ext())
        await a; await t; await b2.wait_until_idle(); await b1.stop(); await b2.stop()
    VLoop().run_until_complete(main())
    return log
explore(run, dom)
