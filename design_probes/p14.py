import asyncio, logging, warnings
warnings.simplefilter('ignore')
from bubus import EventBus, BaseEvent
logging.getLogger('bubus').disabled = True
class P(BaseEvent): pass
class C(BaseEvent): pass
class E(BaseEvent): pass

async def main():
    print('(c) C11: user code raises its own TimeoutError inside a handler')
    bus = EventBus(name='B1')
    mine = TimeoutError('my own timeout from an http client')
    async def h(ev): raise mine
    async def h2(ev): return 'ok'
    bus.on(E, h); bus.on(E, h2)
    e = await bus.dispatch(E())
    r = list(e.event_results.values())[0]
    print('   recorded error is the same object:', r.error is mine, '| recorded:', repr(r.error)[:90])
    try: await e.event_result(raise_if_any=True)
    except BaseException as x: print('   accessor raised same object:', x is mine)
    await bus.stop(clear=True)

    print('(b) C12: custom include admits a completed result whose value is None')
    bus = EventBus(name='B2')
    async def hn(ev): return None
    async def hv(ev): return 5
    bus.on(E, hn); bus.on(E, hv)
    e = await bus.dispatch(E())
    try: print('   list ->', await e.event_results_list(include=lambda r: r.status == 'completed', raise_if_any=False, raise_if_none=False))
    except BaseException as x: print('   raised', type(x).__name__, str(x)[:60])
    await bus.stop(clear=True)

    print('(a) C12/C10: child result cancelled by parent timeout holds a CancelledError; accessor with raise_if_any=False')
    bus = EventBus(name='B3')
    async def hc(ev): await asyncio.sleep(1); return 'c'
    async def hc2(ev): return 'c2'
    kids = []
    async def hp(ev):
        c = bus.dispatch(C()); kids.append(c); await c
    bus.on(P, hp); bus.on(C, hc); bus.on(C, hc2)
    p = bus.dispatch(P(event_timeout=0.05))
    await asyncio.sleep(0.3)
    c = kids[0]
    print('   child results:', [(r.status, type(r.error).__name__) for r in c.event_results.values()], 'child status', c.event_status)
    try:
        t = asyncio.ensure_future(c.event_results_list(raise_if_any=False, raise_if_none=False, timeout=0.2))
        print('   list ->', await t)
    except BaseException as x: print('   raised', type(x).__name__, str(x)[:80])
    bus._is_running = False
asyncio.run(asyncio.wait_for(main(), 10))
