from ex import *
from sym import SymInt
import asyncio
print('--- C18 expect(): 3 events with symbolic payloads, include p>=a, exclude p>=b, symbolic dispatch times, timeout 0.3')
class R(BaseEvent):
    p: object = None      # opaque payload slot (proxy passes through pydantic as Any)
class O(BaseEvent): pass
Pv = [z3.Int(f'p{i}') for i in range(3)]; A, B = z3.Ints('a b'); Tm = [z3.Real(f't{i}') for i in range(3)]
dom = [z3.And(x >= 0, x <= 3) for x in Pv + [A, B]] + [z3.And(t >= 0, t <= 0.4) for t in Tm] + [Tm[0] <= Tm[1], Tm[1] <= Tm[2]]
def run():
    bus = EventBus(name='B'); seen = []
    def mon(ev): seen.append(ev)
    bus.on(R, mon)
    res = {}
    async def disp():
        last = 0
        for i in range(3):
            await asyncio.sleep(SymReal(Tm[i]) - last); last = SymReal(Tm[i])
            bus.dispatch(R(p=SymInt(Pv[i])))
    async def main():
        n0 = sum(len(v) for v in bus.handlers.values())
        t = asyncio.ensure_future(disp())
        try:
            ev = await bus.expect(R, include=lambda e: e.p >= SymInt(A), exclude=lambda e: e.p >= SymInt(B), timeout=0.3)
            res['got'] = seen.index(ev)
        except TimeoutError:
            res['got'] = 'timeout'
        await t; await bus.wait_until_idle()
        res['unsub'] = sum(len(v) for v in bus.handlers.values()) == n0
        await bus.stop()
    VLoop().run_until_complete(main())
    # symbolic oracle: reference index = first i with t_i < 0.3 (processed while pending) and a <= p_i < b
    drv = sym.DRIVER
    match = [z3.And(Tm[i] < 0.3, Pv[i] >= A, z3.Not(Pv[i] >= B)) for i in range(3)]
    if res['got'] == 'timeout': phi = z3.Not(z3.Or(match))
    else:
        g = res['got']; phi = z3.And(match[g], *[z3.Not(match[j]) for j in range(g)])
    drv.solver.push(); drv.solver.add(z3.Not(phi)); r = drv.solver.check(); drv.n_queries += 1
    if r != z3.unsat: res['ORACLE_MISMATCH'] = str(drv.solver.model())
    drv.solver.pop()
    return {k: v for k, v in res.items() if k != 'got'} | {'gotkind': 'timeout' if res['got'] == 'timeout' else 'event'}


import time
drv = Driver(dom); sym.DRIVER = drv
pcs = []; n = 0
t0 = time.time()
while True:
    drv.start_path(); reset()
    run(); n += 1
    pcs.append(z3.And(*drv.path_condition()) if drv.path_condition() else z3.BoolVal(True))
    if not drv.next_prefix(): break
print('regions', n, 'explore wall', round(time.time()-t0,1))
t1 = time.time()
s2 = z3.Solver(); s2.add(*dom); s2.add(z3.Not(z3.Or(pcs)))
print('closure (domain and not any PC):', s2.check(), 'in', round(time.time()-t1,2), 's')
# sanity: drop one region -> closure must become sat
t1 = time.time()
s3 = z3.Solver(); s3.add(*dom); s3.add(z3.Not(z3.Or(pcs[:-1])))
print('closure with one region removed:', s3.check(), 'in', round(time.time()-t1,2), 's')
# pairwise disjointness sample
import random; random.seed(1)
bad = 0
for _ in range(300):
    a, b = random.sample(range(n), 2)
    s4 = z3.Solver(); s4.add(*dom); s4.add(pcs[a], pcs[b])
    if s4.check() == z3.sat: bad += 1
print('overlapping pairs among 300 sampled:', bad)
