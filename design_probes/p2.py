import asyncio, logging, time, sys, gc
sys.path.insert(0, '/tmp/probe')
import z3
import sym
from sym import Driver, SymReal
from vloop import VLoop, Deadlock
from bubus import EventBus, BaseEvent
logging.getLogger('bubus').setLevel(logging.CRITICAL)

class W(BaseEvent): pass
class A(BaseEvent): pass
class B(BaseEvent): pass

def run_once(d1, d2, d3):
    b1 = EventBus(name='B1'); b2 = EventBus(name='B2')
    log = []
    async def hB(ev):
        log.append('hB-start'); await asyncio.sleep(d2); log.append('hB-end'); return 'b'
    async def hA(ev):
        c = b2.dispatch(B())
        await asyncio.sleep(d1)
        log.append('await-begin')
        await c
        log.append(('await-end', c.event_status, c.event_completed_signal.is_set()))
        await asyncio.sleep(d3)
        return 'a'
    b1.on(A, hA); b2.on(B, hB)
    async def main():
        await b2.dispatch(W()); await b1.dispatch(W())   # warm up run loops from main
        e = b1.dispatch(A())
        await e
        log.append('done')
        await b1.stop(); await b2.stop()
    loop = VLoop()
    try:
        loop.run_until_complete(main())
    except Deadlock as e:
        log.append(('DEADLOCK', str(e)))
    return log, loop

D1, D2, D3 = z3.Reals('d1 d2 d3')
dom = [D1 >= 0, D1 <= 0.25, D2 >= 0, D2 <= 0.25, D3 >= 0, D3 <= 0.25]
drv = Driver(dom)
sym.DRIVER = drv
t0 = time.time()
npaths = 0; viol = 0
outcomes = {}
while True:
    drv.start_path()
    log, loop = run_once(SymReal(D1), SymReal(D2), SymReal(D3))
    npaths += 1
    key = str(log)
    outcomes.setdefault(key, []).append(len(drv.trace))
    bad = any(isinstance(x, tuple) and x[0] == 'await-end' and x[1] != 'completed' for x in log) or any(isinstance(x, tuple) and x[0]=='DEADLOCK' for x in log)
    if bad and viol < 3:
        viol += 1
        m = drv.model()
        print('VIOL', log, {str(v): m[v] for v in (D1, D2, D3)})
    if not drv.next_prefix():
        break
    if npaths >= 3000: print('budget'); break
print('paths', npaths, 'queries', drv.n_queries, 'solver_s', round(drv.solver_time,2), 'wall', round(time.time()-t0,2))
for k, v in outcomes.items(): print(len(v), k)
