import asyncio, logging, time, sys, gc, warnings
sys.path.insert(0, '/tmp/probe')
warnings.simplefilter('ignore')
import z3
import sym
from sym import Driver, SymReal
from vloop import VLoop, Deadlock
from bubus import EventBus, BaseEvent
logging.getLogger('bubus').setLevel(logging.CRITICAL)
logging.getLogger('bubus').disabled = True

class P(BaseEvent): pass
class C(BaseEvent): pass
class L(BaseEvent): pass

def run_once(d1, d2, d3, T=0.2):
    bus = EventBus(name='B1')
    log = []
    async def hC(ev):
        log.append('hC-start'); await asyncio.sleep(d2); log.append('hC-end'); return 'c'
    async def hP(ev):
        log.append('hP-start')
        await asyncio.sleep(d1)
        c = bus.dispatch(C())
        log.append('await-begin')
        await c
        log.append(('await-end', c.event_status))
        await asyncio.sleep(d3)
        log.append('hP-end')
        return 'p'
    async def hL(ev):
        log.append('hL'); return 'l'
    bus.on(P, hP); bus.on(C, hC); bus.on(L, hL)
    res = {}
    async def main():
        p = bus.dispatch(P(event_timeout=T))
        l = bus.dispatch(L())
        await bus.wait_until_idle()
        res['idle_at'] = asyncio.get_event_loop().time()
        res['p'] = p.event_status; res['l'] = l.event_status
        res['pres'] = [(r.status, type(r.error).__name__) for r in p.event_results.values()]
        for ch in p.event_children:
            res['c'] = (ch.event_status, [(r.status, type(r.error).__name__) for r in ch.event_results.values()])
        await bus.stop(clear=True)
    loop = VLoop()
    try:
        loop.run_until_complete(main())
    except Deadlock as e:
        log.append(('DEADLOCK', str(e)))
        bus._is_running = False
        EventBus.all_instances.discard(bus)
    return log, res, loop

D1, D2, D3 = z3.Reals('d1 d2 d3')
H = float(sys.argv[1]) if len(sys.argv) > 1 else 0.3
dom = [D1 >= 0, D1 <= H, D2 >= 0, D2 <= H, D3 >= 0, D3 <= H]
drv = Driver(dom)
sym.DRIVER = drv
t0 = time.time()
npaths = 0
outcomes = {}
while True:
    drv.start_path()
    log, res, loop = run_once(SymReal(D1), SymReal(D2), SymReal(D3))
    gc.collect()
    npaths += 1
    res.pop('idle_at', None)
    key = str(log) + ' | ' + str(res)
    if key not in outcomes:
        m = drv.model()
        outcomes[key] = [0, {str(v): str(m[v]) for v in (D1, D2, D3)}]
    outcomes[key][0] += 1
    if not drv.next_prefix():
        break
    if npaths >= 5000: print('budget'); break
print('paths', npaths, 'queries', drv.n_queries, 'solver_s', round(drv.solver_time,2), 'wall', round(time.time()-t0,2))
for k, v in outcomes.items(): print(v, k)
