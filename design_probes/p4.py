import sys, warnings, logging, time
sys.path.insert(0, '/tmp/probe')
warnings.simplefilter('ignore')
import z3, sym
from sym import Driver, SymReal, SymBool
from bubus import EventBus
logging.getLogger('bubus').disabled = True

class SymStatus:
    NAMES = ('pending', 'started', 'completed')
    def __init__(self, e): self.e = e
    def __eq__(self, o):
        if isinstance(o, str):
            return SymBool(self.e == self.NAMES.index(o)) if o in self.NAMES else False
        return NotImplemented
    def __ne__(self, o):
        r = self.__eq__(o); return SymBool(z3.Not(r.e)) if isinstance(r, SymBool) else (not r)
    __hash__ = None
class TS:
    def __init__(self, t): self.t = t
    def timestamp(self): return self.t
class Ev:
    def __init__(self, s, t):
        self.s = s; self.event_status = SymStatus(s); self.event_created_at = TS(SymReal(t)); self.t = t
        self.event_started_at = None; self.event_completed_at = None

K = int(sys.argv[1]) if len(sys.argv) > 1 else 5
S = [z3.Int(f's{i}') for i in range(K)]; T = [z3.Real(f't{i}') for i in range(K)]
tot_paths = tot_q = 0; t0 = time.time(); tsolve = 0
for k in range(0, K + 1):
  for n in range(1, K + 1):
    dom = [z3.And(S[i] >= 0, S[i] <= 2) for i in range(k)]
    drv = Driver(dom); sym.DRIVER = drv
    while True:
        drv.start_path()
        bus = EventBus(name='K', max_history_size=n); EventBus.all_instances.discard(bus)
        objs = {str(i): Ev(S[i], T[i]) for i in range(k)}
        bus.event_history = dict(objs)
        bus.cleanup_event_history()
        kept = set(bus.event_history)
        assert len(kept) == min(k, n), (k, n, kept)
        removed = [x for x in objs if x not in kept]
        # final assertion discharged by solver over the whole path region
        rank = lambda s: z3.If(s == 2, 0, z3.If(s == 1, 1, 2))
        bad = []
        for r in removed:
            for kk in kept:
                a, b = objs[r], objs[kk]
                bad.append(z3.Or(rank(a.s) > rank(b.s), z3.And(rank(a.s) == rank(b.s), a.t > b.t)))
        if bad:
            drv.solver.push(); drv.solver.add(z3.Or(bad)); r = drv.solver.check(); drv.n_queries += 1
            if r != z3.unsat:
                print('VIOLATION', k, n, drv.solver.model()); sys.exit(1)
            drv.solver.pop()
        tot_paths += 1
        if not drv.next_prefix(): break
    tot_q += drv.n_queries; tsolve += drv.solver_time
print('K', K, 'paths', tot_paths, 'queries', tot_q, 'solver_s', round(tsolve, 2), 'wall', round(time.time() - t0, 2))
