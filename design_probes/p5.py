import asyncio, logging, time, sys, gc, warnings, weakref
sys.path.insert(0, '/tmp/probe')
warnings.simplefilter('ignore')
import z3, sym
from sym import Driver, SymReal
from vloop import VLoop, Deadlock
import bubus.service as svc
from bubus import EventBus, BaseEvent
logging.getLogger('bubus').disabled = True

class E(BaseEvent): pass

def run_once(ds, edges, nb):
    EventBus.all_instances = weakref.WeakSet()
    svc._global_eventbus_lock = None
    buses = [EventBus(name=f'B{i}') for i in range(nb)]
    log = []
    def mk(i):
        async def h(ev):
            log.append(f'h{i}-start'); await asyncio.sleep(ds[i]); log.append(f'h{i}-end'); return i
        h.__name__ = f'h{i}'
        return h
    for i, b in enumerate(buses): b.on(E, mk(i))
    for (a, c) in edges: buses[a].on('*', buses[c].dispatch)
    res = {}
    async def main():
        e = buses[0].dispatch(E())
        await e
        res['at_await'] = (e.event_status, len(e.event_results), list(e.event_path))
        for b in buses: await b.wait_until_idle()
        res['final'] = (e.event_status, len(e.event_results), list(e.event_path), e.event_parent_id == e.event_id)
        for b in buses: await b.stop(clear=True)
    loop = VLoop(); loop.max_steps = 20000
    try:
        loop.run_until_complete(main())
    except Deadlock as e:
        log.append(('DEADLOCK', str(e)))
    return log, res

nb = int(sys.argv[1]); H = float(sys.argv[2])
topo = {'chain': [(i, i+1) for i in range(nb-1)], 'cycle': [(i, (i+1) % nb) for i in range(nb)], 'diamond': [(0,1),(0,2),(1,3),(2,3)]}[sys.argv[3]]
D = [z3.Real(f'd{i}') for i in range(nb)]
dom = [z3.And(d >= 0, d <= H) for d in D]
drv = Driver(dom); sym.DRIVER = drv
t0 = time.time(); npaths = 0; outcomes = {}
while True:
    drv.start_path()
    log, res = run_once([SymReal(d) for d in D], topo, nb)
    npaths += 1
    key = str(log) + ' | ' + str(res)
    outcomes.setdefault(key, 0); outcomes[key] += 1
    if not drv.next_prefix(): break
    if npaths >= 20000: print('budget'); break
    if npaths % 200 == 0: gc.collect()
print(sys.argv[1:], 'paths', npaths, 'outcome classes', len(outcomes), 'queries', drv.n_queries, 'solver_s', round(drv.solver_time,2), 'wall', round(time.time()-t0,2))
for k, v in list(outcomes.items())[:4]: print(v, k)
