import asyncio, logging, time, sys, gc, warnings
sys.path.insert(0, '/tmp/probe')
warnings.simplefilter('ignore')
import z3, sym
from sym import Driver, SymReal, SymBool
from vloop import VLoop, Deadlock
import bubus.helpers as hp
logging.getLogger('bubus.helpers').disabled = True
hp._check_system_overload_if_needed = lambda: None

class Boom(Exception): pass
class Other(Exception): pass

def run_once(R, durs, outs, wait, backoff, TO=1):
    """outs[i] : SymBool-able z3 Int: 0 ok, 1 listed exc, 2 unlisted exc"""
    calls = []
    sleeps = []
    loop = VLoop()
    @hp.retry(wait=wait, retries=R, timeout=TO, retry_on=(Boom, TimeoutError), backoff_factor=backoff)
    async def f():
        i = len(calls)
        calls.append(loop.time())
        await asyncio.sleep(durs[i])
        o = outs[i]
        if SymBool(o == 0): return ('ok', i)
        if SymBool(o == 1): raise Boom(i)
        raise Other(i)
    res = {}
    async def main():
        try:
            res['ret'] = await f()
        except BaseException as e:
            res['exc'] = (type(e).__name__, e.args)
        res['end'] = loop.time()
    try:
        loop.run_until_complete(main())
    except Deadlock as e:
        res['dead'] = str(e)
    return calls, res

R = int(sys.argv[1])
D = [z3.Real(f'd{i}') for i in range(R+2)]; O = [z3.Int(f'o{i}') for i in range(R+2)]
W = z3.Real('w')
dom = [z3.And(d >= 0, d <= 2) for d in D] + [z3.And(o >= 0, o <= 2) for o in O] + [W >= 0, W <= 3]
drv = Driver(dom); sym.DRIVER = drv
t0 = time.time(); npaths = 0; nviol = 0
bf = 2
while True:
    drv.start_path()
    calls, res = run_once(R, [SymReal(d) for d in D], O, SymReal(W), bf)
    npaths += 1
    assert len(calls) <= R + 1, calls
    # symbolic oracle: gap between attempt k end and attempt k+1 start == w*bf**k  (discharged by solver)
    # attempt k end = calls[k] + min(d_k, TO)
    obligations = []
    for k in range(len(calls) - 1):
        endk = sym._lift(calls[k]) + z3.If(D[k] < 1, D[k], z3.RealVal(1))
        gap = sym._lift(calls[k+1]) - endk
        obligations.append(gap == W * (bf ** k))
    if obligations:
        drv.solver.push(); drv.solver.add(z3.Not(z3.And(obligations))); r = drv.solver.check(); drv.n_queries += 1
        if r != z3.unsat:
            nviol += 1
            if nviol < 3: print('VIOL', calls, res, drv.solver.model())
        drv.solver.pop()
    if not drv.next_prefix(): break
print('R', R, 'paths', npaths, 'viol', nviol, 'queries', drv.n_queries, 'solver_s', round(drv.solver_time,2), 'wall', round(time.time()-t0,2))
