from ex import *
import asyncio
# semaphore: 3 callers, limit 1, symbolic start offsets & durations; then second loop reuse (F13)
S = [z3.Real(f's{i}') for i in range(3)]; D = [z3.Real(f'd{i}') for i in range(3)]
dom = [z3.And(x >= 0, x <= 0.3) for x in S + D]
def run():
    active = [0]; peak = [0]; out = []
    @hp.retry(wait=0, retries=0, timeout=1, semaphore_limit=1, semaphore_name='k', semaphore_lax=False, semaphore_timeout=0.2)
    async def f(i):
        active[0] += 1; peak[0] = max(peak[0], active[0])
        try:
            await asyncio.sleep(SymReal(D[i]))
        finally:
            active[0] -= 1
        return i
    async def caller(i):
        await asyncio.sleep(SymReal(S[i]))
        try: out.append(('ok', await f(i)))
        except BaseException as e: out.append((type(e).__name__, i))
    async def main():
        await asyncio.gather(*[caller(i) for i in range(3)])
    loop = VLoop(); loop.run_until_complete(main())
    free = hp.GLOBAL_RETRY_SEMAPHORES['k']._value
    # second loop reuse
    out2 = []
    async def main2():
        await asyncio.gather(*[caller(i) for i in range(2)])
    out.clear()
    loop2 = VLoop()
    try: loop2.run_until_complete(main2())
    except Exception as e: out.append(('EXC', type(e).__name__))
    return ('peak', peak[0], 'free', free, 'second', sorted(o[0] for o in out))
explore(run, dom, maxpaths=3000)
