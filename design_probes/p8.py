from ex import *
import asyncio
class R(BaseEvent): 
    n: int = 0
class P(BaseEvent): pass
class C(BaseEvent): pass

print('--- F2 self-recursive depth 3: await hangs?')
D = z3.Real('d'); dom = [D >= 0, D <= 0.2]
def run():
    bus = EventBus(name='B'); log = []
    async def h(ev):
        log.append(ev.n)
        if ev.n < 3:
            bus.dispatch(R(n=ev.n + 1))
        await asyncio.sleep(SymReal(D))
    bus.on(R, h)
    res = {}
    async def main():
        e = bus.dispatch(R(n=0))
        try:
            await asyncio.wait_for(e.event_completed_signal.wait(), 3.0); res['root'] = 'completed'
        except TimeoutError: res['root'] = 'HANG@3s'
        try:
            await asyncio.wait_for(bus.wait_until_idle(), 3.0); res['idle'] = 'ok'
        except TimeoutError: res['idle'] = 'HANG@3s'
        await bus.stop()
    loop = VLoop(); loop.run_until_complete(main())
    return log, res
explore(run, dom)

print('--- F11 parent evicted by fire-and-forget children (N=2)')
def run():
    bus = EventBus(name='B', max_history_size=2); log = []
    async def hp_(ev):
        for i in range(3): bus.dispatch(C())
        await asyncio.sleep(SymReal(D))
    async def hc(ev): log.append('c')
    bus.on(P, hp_); bus.on(C, hc)
    res = {}
    async def main():
        e = bus.dispatch(P())
        try:
            await asyncio.wait_for(e.event_completed_signal.wait(), 3.0); res['root'] = 'completed'
        except TimeoutError: res['root'] = 'HANG@3s'
        res['hist'] = len(bus.event_history)
        await bus.stop()
    loop = VLoop(); loop.run_until_complete(main())
    return log, res
explore(run, dom)

print('--- F7 asyncio.run-style shutdown: cancel all tasks, do they finish?')
def run():
    bus = EventBus(name='B')
    async def h(ev): await asyncio.sleep(SymReal(D))
    bus.on(P, h)
    res = {}
    loop = VLoop()
    async def main():
        bus.dispatch(P())
        await asyncio.sleep(0.05)
    loop.run_until_complete(main())
    # emulate asyncio.runners._cancel_all_tasks
    to_cancel = [t for t in asyncio.all_tasks(loop) if not t.done()]
    for t in to_cancel: t.cancel()
    async def waitall():
        done, pending = await asyncio.wait(to_cancel, timeout=5.0)
        res['still_pending_after_5s'] = sorted(t.get_name()[:20] for t in pending)
    if to_cancel: loop.run_until_complete(waitall())
    return res
explore(run, dom)
