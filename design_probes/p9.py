import asyncio, sys, warnings, logging, weakref
sys.path.insert(0, '/tmp/probe')
warnings.simplefilter('ignore')
from vloop import VLoop
import bubus.service as svc
from bubus import EventBus, BaseEvent
logging.getLogger('bubus').disabled = True
class W(BaseEvent): pass
class A(BaseEvent): pass
class B(BaseEvent): pass
class P(BaseEvent): pass
class C(BaseEvent): pass
class L(BaseEvent): pass

def scen1(d1, d2, d3):
    b1 = EventBus(name='B1'); b2 = EventBus(name='B2'); log = []
    async def hB(ev): log.append('hB-start'); await asyncio.sleep(d2); log.append('hB-end')
    async def hA(ev):
        c = b2.dispatch(B()); await asyncio.sleep(d1); log.append('await-begin'); await c
        log.append(('await-end', c.event_status)); await asyncio.sleep(d3)
    b1.on(A, hA); b2.on(B, hB)
    async def main():
        await b2.dispatch(W()); await b1.dispatch(W())
        await b1.dispatch(A()); log.append('done'); await b1.stop(); await b2.stop()
    return main, log

def scen2(d1, d2, d3, T=0.2):
    bus = EventBus(name='B1'); log = []
    async def hC(ev): log.append('hC-start'); await asyncio.sleep(d2); log.append('hC-end')
    async def hP(ev):
        log.append('hP-start'); await asyncio.sleep(d1); c = bus.dispatch(C()); log.append('await-begin'); await c
        log.append(('await-end', c.event_status)); await asyncio.sleep(d3); log.append('hP-end')
    async def hL(ev): log.append('hL')
    bus.on(P, hP); bus.on(C, hC); bus.on(L, hL)
    async def main():
        p = bus.dispatch(P(event_timeout=T)); l = bus.dispatch(L())
        try: await asyncio.wait_for(bus.wait_until_idle(), 2.0); log.append('idle')
        except TimeoutError: log.append('IDLE-HANG@2s')
        log.append((p.event_status, l.event_status))
        await bus.stop(clear=True)
    return main, log

for name, mk, args in [('scen1', scen1, (0.02, 0.03, 0.01)), ('scen2a', scen2, (0.01, 0.02, 0.01)), ('scen2b(timeout in d3)', scen2, (0.01, 0.02, 0.25)), ('scen2c(timeout during inline child)', scen2, (0.01, 0.3, 0.0))]:
    out = []
    for kind in ('virtual', 'real'):
        EventBus.all_instances = weakref.WeakSet(); svc._global_eventbus_lock = None
        main, log = mk(*args)
        if kind == 'virtual': VLoop().run_until_complete(main())
        else: asyncio.run(asyncio.wait_for(main(), 20))
        out.append(log)
    print(name, 'AGREE' if out[0] == out[1] else 'DIFFER'); print('  ', out[0]); 
    if out[0] != out[1]: print('  ', out[1])
