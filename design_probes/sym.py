"""Probe: z3-backed symbolic reals + DFS path driver (concolic-style, replay-based)."""
import fractions
import time
import z3


class PathEnd(BaseException):
    pass


class Driver:
    def __init__(self, domain_constraints=()):
        self.solver = z3.Solver()
        self.domain = list(domain_constraints)
        self.prefix = []  # list of bools (decisions to replay)
        self.trace = []  # decisions taken in this run: (expr, taken, other_feasible)
        self.n_queries = 0
        self.solver_time = 0.0
        self.paths = []

    def start_path(self):
        self.trace = []
        self.solver.reset()
        for c in self.domain:
            self.solver.add(c)

    def _check(self, *assumptions):
        t = time.perf_counter()
        self.solver.push()
        for a in assumptions:
            self.solver.add(a)
        r = self.solver.check()
        self.solver.pop()
        self.n_queries += 1
        self.solver_time += time.perf_counter() - t
        if r == z3.unknown:
            raise RuntimeError('solver unknown')
        return r == z3.sat

    def decide(self, expr):
        expr = z3.simplify(expr)
        if z3.is_true(expr):
            return True
        if z3.is_false(expr):
            return False
        i = len(self.trace)
        if i < len(self.prefix):
            taken = self.prefix[i]
            self.trace.append((expr, taken, None))
            self.solver.add(expr if taken else z3.Not(expr))
            return taken
        can_t = self._check(expr)
        can_f = self._check(z3.Not(expr))
        if can_t and can_f:
            taken = True
            self.trace.append((expr, True, True))
        elif can_t:
            taken = True
            self.trace.append((expr, True, False))
        elif can_f:
            taken = False
            self.trace.append((expr, False, False))
        else:
            raise RuntimeError('infeasible path')
        self.solver.add(expr if taken else z3.Not(expr))
        return taken

    def path_condition(self):
        return [e if t else z3.Not(e) for e, t, _ in self.trace]

    def next_prefix(self):
        """compute next prefix by flipping the deepest decision with an unexplored feasible alternative"""
        # merge replayed info: for replayed decisions 'other' is None -> need bookkeeping from earlier runs
        dec = self.decisions_meta[: len(self.trace)] if hasattr(self, 'decisions_meta') else []
        meta = []
        for i, (e, t, other) in enumerate(self.trace):
            if other is None:
                meta.append(dec[i])
            else:
                meta.append([t, other])  # [taken, alt_pending]
        while meta and not meta[-1][1]:
            meta.pop()
        if not meta:
            return False
        meta[-1][0] = not meta[-1][0]
        meta[-1][1] = False
        self.decisions_meta = meta
        self.prefix = [m[0] for m in meta]
        return True

    def model(self, extra=()):
        self.solver.push()
        for a in extra:
            self.solver.add(a)
        r = self.solver.check()
        m = self.solver.model() if r == z3.sat else None
        self.solver.pop()
        return m


DRIVER: Driver = None  # type: ignore


def _lift(x):
    if isinstance(x, SymReal):
        return x.e
    if isinstance(x, bool):
        raise TypeError
    if isinstance(x, int):
        return z3.RealVal(x)
    if isinstance(x, float):
        f = fractions.Fraction(str(x))
        return z3.RealVal(f'{f.numerator}/{f.denominator}')
    if isinstance(x, fractions.Fraction):
        return z3.RealVal(f'{x.numerator}/{x.denominator}')
    return NotImplemented


class SymBool:
    __slots__ = ('e',)

    def __init__(self, e):
        self.e = e

    def __bool__(self):
        return DRIVER.decide(self.e)


class SymReal:
    __slots__ = ('e',)

    def __init__(self, e):
        self.e = e

    def _bin(self, o, f):
        l = _lift(o)
        if l is NotImplemented:
            return NotImplemented
        return SymReal(f(self.e, l))

    def _rbin(self, o, f):
        l = _lift(o)
        if l is NotImplemented:
            return NotImplemented
        return SymReal(f(l, self.e))

    def __add__(self, o): return self._bin(o, lambda a, b: a + b)
    def __radd__(self, o): return self._rbin(o, lambda a, b: a + b)
    def __sub__(self, o): return self._bin(o, lambda a, b: a - b)
    def __rsub__(self, o): return self._rbin(o, lambda a, b: a - b)
    def __mul__(self, o): return self._bin(o, lambda a, b: a * b)
    def __rmul__(self, o): return self._rbin(o, lambda a, b: a * b)
    def __neg__(self): return SymReal(-self.e)

    def _cmp(self, o, f):
        l = _lift(o)
        if l is NotImplemented:
            return NotImplemented
        return SymBool(f(self.e, l))

    def __lt__(self, o): return self._cmp(o, lambda a, b: a < b)
    def __le__(self, o): return self._cmp(o, lambda a, b: a <= b)
    def __gt__(self, o): return self._cmp(o, lambda a, b: a > b)
    def __ge__(self, o): return self._cmp(o, lambda a, b: a >= b)
    def __eq__(self, o): return self._cmp(o, lambda a, b: a == b)
    def __ne__(self, o): return self._cmp(o, lambda a, b: a != b)
    __hash__ = None

    def __format__(self, spec): return '<sym>'
    def __str__(self): return '<sym>'
    def __repr__(self): return f'Sym({z3.simplify(self.e)})'

    def __float__(self):
        raise TypeError('symbolic real reached a concrete boundary (float())')


class SymInt(SymReal):
    """z3 Int proxy (same operators; __index__ enumerates feasible values by forking)."""
    __slots__ = ()

    def __index__(self):
        m = DRIVER.model()
        # fork on candidate values in increasing order until one is taken
        v = 0
        while True:
            if SymBool(self.e == v):
                return v
            v += 1
            if v > 10000:
                raise RuntimeError('unbounded SymInt concretisation')
