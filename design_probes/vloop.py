"""Probe: minimal virtual-time asyncio loop (pure python scheduling) for running real bubus code."""
import asyncio
import collections
import contextvars
from asyncio import events, futures, tasks


class Deadlock(Exception):
    pass


class VLoop(asyncio.AbstractEventLoop):
    def __init__(self, now=0):
        self._now = now
        self._ready = collections.deque()
        self._timers = []  # list of (when, seq, handle) kept sorted by insertion via comparisons
        self._seq = 0
        self._running = False
        self._closed = False
        self._stopping = False
        self._exc = []
        self._debug = False
        self._task_factory = None
        self.n_steps = 0
        self.max_steps = 200000

    # --- time
    def time(self):
        return self._now

    # --- scheduling
    def call_soon(self, callback, *args, context=None):
        h = events.Handle(callback, args, self, context)
        self._ready.append(h)
        return h

    call_soon_threadsafe = call_soon

    def call_later(self, delay, callback, *args, context=None):
        return self.call_at(self._now + delay, callback, *args, context=context)

    def call_at(self, when, callback, *args, context=None):
        h = events.TimerHandle(when, callback, args, self, context)
        self._seq += 1
        # insertion sort: place after all timers with when' <= when  (ties -> insertion order)
        i = len(self._timers)
        while i > 0 and when < self._timers[i - 1][0]:
            i -= 1
        self._timers.insert(i, (when, self._seq, h))
        h._scheduled = True
        return h

    def _timer_handle_cancelled(self, handle):
        pass

    def create_future(self):
        return futures.Future(loop=self)

    def create_task(self, coro, *, name=None, context=None):
        if context is None:
            t = tasks.Task(coro, loop=self, name=name)
        else:
            t = tasks.Task(coro, loop=self, name=name, context=context)
        return t

    def get_debug(self):
        return self._debug

    def set_debug(self, v):
        self._debug = v

    def is_running(self):
        return self._running

    def is_closed(self):
        return self._closed

    def close(self):
        self._closed = True

    def stop(self):
        self._stopping = True

    def call_exception_handler(self, context):
        self._exc.append(context)

    def default_exception_handler(self, context):
        self._exc.append(context)

    async def shutdown_asyncgens(self):
        pass

    async def shutdown_default_executor(self, timeout=None):
        pass

    def get_task_factory(self):
        return None

    def _run_once(self):
        if not self._ready:
            # drop cancelled timers at head
            while self._timers and self._timers[0][2]._cancelled:
                self._timers.pop(0)
            if not self._timers:
                raise Deadlock('no runnable task and no timer')
            when = self._timers[0][0]
            if self._now < when:
                self._now = when
        # move due timers
        while self._timers:
            when, _, h = self._timers[0]
            if h._cancelled:
                self._timers.pop(0)
                continue
            if when <= self._now:
                self._timers.pop(0)
                h._scheduled = False
                self._ready.append(h)
            else:
                break
        n = len(self._ready)
        for _ in range(n):
            h = self._ready.popleft()
            if h._cancelled:
                continue
            self.n_steps += 1
            if self.n_steps > self.max_steps:
                raise Deadlock('step budget exceeded')
            h._run()

    def run_until_complete(self, fut):
        fut = tasks.ensure_future(fut, loop=self)
        done = []
        fut.add_done_callback(lambda f: done.append(1))
        self._running = True
        old = events._get_running_loop()
        events._set_running_loop(self)
        try:
            while not done:
                self._run_once()
        finally:
            self._running = False
            events._set_running_loop(old)
        return fut.result()

    def run_forever(self):
        raise NotImplementedError
