"""z3-free foundations shared by the symbolic engine and the concrete replayer.

Nothing in this module imports z3: `vcheck replay` runs templates with exact rationals
(`Exact`) and plain ints/bools only, so that a counterexample is confirmed against the real
bubus code without the symbolic layer in the process.
"""
from __future__ import annotations

import fractions


FATAL: list = []  # every HarnessError ever constructed in this process (bubus swallows Exception)


class HarnessError(Exception):
    """Inconclusive / harness problem -> exit code 2, never converted to a pass."""

    def __init__(self, *a):
        super().__init__(*a)
        FATAL.append(self)


class ConcretisationBoundary(HarnessError):
    pass


class NonDeterministicHarness(HarnessError):
    pass


class SolverUnknown(HarnessError):
    pass


class Vacuous(HarnessError):
    pass


class PathAbort(BaseException):
    """Ends the current path from deep inside the program (BaseException: bubus catches Exception)."""


class Horizon(BaseException):
    """Virtual clock passed the horizon with the main coroutine still blocked."""


class SyncHang(KeyboardInterrupt):
    """Wall-clock watchdog: code under test ran synchronously (never yielding to the loop) for longer than the per-run limit.
    (A KeyboardInterrupt subclass because asyncio lets only those pass through tasks and handles.)"""


def _fr(x):
    if isinstance(x, fractions.Fraction):
        return x
    if isinstance(x, bool):
        raise TypeError('bool used as a number')
    if isinstance(x, int):
        return fractions.Fraction(x)
    if isinstance(x, float):
        # floats met in the code (0.1, 15.0, 0.01 ...) are lifted to the decimal they were written as
        return fractions.Fraction(repr(x))
    return NotImplemented


class Exact(fractions.Fraction):
    """Fraction that absorbs floats exactly as their shortest decimal (0.1 -> 1/10)."""

    __slots__ = ()

    def __new__(cls, x=0, d=None):
        if d is None:
            v = _fr(x) if not isinstance(x, str) else fractions.Fraction(x)
        else:
            v = fractions.Fraction(x, d)
        self = super().__new__(cls, v.numerator, v.denominator)
        return self

    def _w(self, o, f, swap=False):
        v = _fr(o)
        if v is NotImplemented:
            return NotImplemented
        a = fractions.Fraction(self.numerator, self.denominator)
        return Exact(f(v, a) if swap else f(a, v))

    def __add__(self, o): return self._w(o, lambda a, b: a + b)
    def __radd__(self, o): return self._w(o, lambda a, b: a + b, True)
    def __sub__(self, o): return self._w(o, lambda a, b: a - b)
    def __rsub__(self, o): return self._w(o, lambda a, b: a - b, True)
    def __mul__(self, o): return self._w(o, lambda a, b: a * b)
    def __rmul__(self, o): return self._w(o, lambda a, b: a * b, True)
    def __truediv__(self, o): return self._w(o, lambda a, b: a / b)
    def __rtruediv__(self, o): return self._w(o, lambda a, b: a / b, True)
    def __neg__(self): return Exact(-fractions.Fraction(self.numerator, self.denominator))
    def __pos__(self): return self
    def __abs__(self): return Exact(abs(fractions.Fraction(self.numerator, self.denominator)))

    def __pow__(self, o):
        if isinstance(o, int) and not isinstance(o, bool):
            return Exact(fractions.Fraction(self.numerator, self.denominator) ** o)
        return NotImplemented

    def _c(self, o, f):
        v = _fr(o)
        if v is NotImplemented:
            return NotImplemented
        return f(fractions.Fraction(self.numerator, self.denominator), v)

    def __lt__(self, o): return self._c(o, lambda a, b: a < b)
    def __le__(self, o): return self._c(o, lambda a, b: a <= b)
    def __gt__(self, o): return self._c(o, lambda a, b: a > b)
    def __ge__(self, o): return self._c(o, lambda a, b: a >= b)
    def __eq__(self, o): return self._c(o, lambda a, b: a == b)
    def __ne__(self, o): return self._c(o, lambda a, b: a != b)
    __hash__ = fractions.Fraction.__hash__

    def __repr__(self):
        return f'{self.numerator}/{self.denominator}' if self.denominator != 1 else str(self.numerator)
    __str__ = __repr__

    def __format__(self, spec):
        try:
            return format(float(self), spec)
        except Exception:
            return repr(self)


class SymBase:
    """Marker base for all symbolic proxies (lets z3-free code detect them)."""
    __slots__ = ()


def is_sym(x) -> bool:
    return isinstance(x, SymBase)


# ---- three-valued-free logic helpers: operate on bool or symbolic bool, never force a decision
def zand(*xs):
    xs = [x for x in xs]
    if any(x is False for x in xs):
        return False
    syms = [x for x in xs if is_sym(x)]
    if not syms:
        return all(bool(x) for x in xs)
    return syms[0]._and(syms[1:])


def zor(*xs):
    if any(x is True for x in xs):
        return True
    syms = [x for x in xs if is_sym(x)]
    if not syms:
        return any(bool(x) for x in xs)
    return syms[0]._or(syms[1:])


def znot(x):
    if is_sym(x):
        return x._not()
    return not x


def zimplies(a, b):
    return zor(znot(a), b)


def zite(c, a, b):
    """if-then-else on numbers/bools without deciding c."""
    if is_sym(c):
        return c._ite(a, b)
    return a if c else b
