"""Clause evaluators for the scheduling properties, over monitor records (Appendix A of DESIGN.md).

Every evaluator only calls ctx.check(); which clauses gate is decided by the property being run
(the runner filters on the `CNN.` prefix)."""
from __future__ import annotations

from .base import is_sym
from .oracles import Trace


def _uniq(seq):
    out = []
    for x in seq:
        if x not in out:
            out.append(x)
    return out


def excused_events(tr):
    """events below an event one of whose handlers was cancelled by its time-out: their not-yet-started handlers are cancelled
    rather than run (C10), so 'ran exactly once' weakens to 'ran at most once' for them."""
    out = set()
    for h, x in tr.X.items():
        if x.outcome == 'cancelled':
            out.update(tr.desc(tr.Eh[h].ev))
    return out


def expected_pairs(ctx, tr, lab, before_seq=None):
    """[(bus, handler name)] that must run for event `lab`: monitored handlers matching it on every bus that accepted it."""
    out = []
    for r in tr.DR:
        if r.ev == lab and (before_seq is None or r.seq < before_seq):
            for n in ctx.expected(r.bus, lab):
                if (r.bus, n) not in out:
                    out.append((r.bus, n))
    return out


# ------------------------------------------------------------------ C01
def eval_c01(ctx, tr, finished):
    # events below an event one of whose handlers was cancelled by its time-out: their not-yet-started handlers are
    # cancelled rather than run (C10); everything else must still be delivered exactly once
    excused = set()
    for h, x in tr.X.items():
        if x.outcome == 'cancelled':
            excused.update(tr.desc(tr.Eh[h].ev))
    for (bus, lab) in _uniq(tr.accepted()):
        for name in ctx.expected(bus, lab):
            n = tr.count(bus, lab, name)
            if lab in excused:
                ctx.check('C01.once', n <= 1, bus=bus, ev=lab, handler=name, n=n)
            else:
                ctx.check('C01.once', n == 1, bus=bus, ev=lab, handler=name, n=n)
    acc = set(tr.accepted())
    for r in tr.E:
        ok = r.name in ctx.may_run(r.bus, r.ev) and (r.bus, r.ev) in acc
        ctx.check('C01.none_extra', ok, bus=r.bus, ev=r.ev, handler=r.name)
    if not ctx.cfg.get('rejections_expected'):
        ctx.check('C01.accepted', not tr.DX, dx=[(r.bus, r.ev, r.exc) for r in tr.DX])
    # informational cross-check with bubus's own results (not gating)
    ctx.notes['c01_results_crosscheck'] = True


# ------------------------------------------------------------------ C02
def eval_c02(ctx, tr):
    par = set(ctx.cfg.get('parallel', []))
    for bus in ctx.buses:
        enq = [e for e in tr.enq(bus) if ctx.expected(bus, e)]
        for i in range(len(enq)):
            for j in range(i + 1, len(enq)):
                e1, e2 = enq[i], enq[j]
                s1, s2 = tr.first_entry_seq(bus, e1), tr.first_entry_seq(bus, e2)
                if s2 is not None and s1 is not None and s2 < s1:
                    allowed = False
                    for (h, a) in tr.all_awaited_at(s2):
                        if h in tr.Eh and (e2 == a or e2 in tr.desc(a)):
                            allowed = True
                    ctx.check('C02.take_order', allowed, bus=bus, earlier=e1, later=e2)
                    if not allowed:
                        ctx.witness('fifo inversion')
                elif s1 is not None and s2 is not None:
                    ctx.check('C02.take_order', True)
        if bus in par:
            continue
        for e2 in tr.E:
            if e2.bus != bus:
                continue
            for h1, e1 in tr.Eh.items():
                if e1.bus == bus and e1.ev != e2.ev and tr.running(h1, e2.seq):
                    ok = bool(tr.awaiting(h1, e2.seq))
                    ctx.check('C02.no_overlap', ok, bus=bus, running=h1, started=e2.h)


# ------------------------------------------------------------------ C03 / C04
def _await_checks(ctx, tr, prefix, by_main):
    for ab in tr.AB:
        if ab.ev.startswith('idle:'):
            continue
        is_main = not (ab.by in tr.Eh)
        if is_main != by_main:
            continue
        ae = next((r for r in tr.AE if r.by == ab.by and r.ev == ab.ev and r.seq > ab.seq), None)
        lab = ab.ev
        if ae is None:
            # never returned: hang, unless the awaiting handler itself was cancelled/ended (then an AE 'cancelled' exists)
            ctx.check(f'{prefix}.released' if by_main else f'{prefix}.no_deadlock', False, by=ab.by, ev=lab,
                      why='await still blocked at the virtual horizon')
            continue
        ctx.check(f'{prefix}.released' if by_main else f'{prefix}.no_deadlock', True)
        if ae.outcome == 'cancelled':
            continue
        if ae.outcome != 'return':
            ctx.check(f'{prefix}.no_raise', False, by=ab.by, ev=lab, outcome=ae.outcome)
            continue
        ctx.check(f'{prefix}.no_raise', True)
        ctx.check(f'{prefix}.same_object', bool(ae.same), ev=lab)
        snap = ae.snap
        nonterm = [r for r in snap['results'] if r[2] not in ('completed', 'error')]
        ctx.check(f'{prefix}.results_terminal', not nonterm, ev=lab, got=nonterm)
        ctx.check(f'{prefix}.child_complete' if not by_main else f'{prefix}.complete', snap['status'] == 'completed' and snap['signal'] is True,
                  ev=lab, got=(snap['status'], snap['signal']))
        # harness view: the event's handlers (on every bus that accepted it before the return) and all descendants are done
        cancelled_somewhere = any(x.outcome == 'cancelled' for x in tr.X.values())

        def exp_fn(x):
            # after a time-out cancelled handlers, handlers that had not started are legitimately cancelled instead of run
            # (C10); then only "every handler that did start has exited" is demanded here, plus bubus's own view below
            return None if cancelled_somewhere else expected_pairs(ctx, tr, x, before_seq=ae.seq)
        ok_h = tr.tree_done(lab, ae.seq, exp_fn)
        ctx.check(f'{prefix}.descendants_complete', ok_h, ev=lab, why='a handler of the event or of a descendant had not finished (harness records)')
        # bubus view of the descendants at the same instant
        bad = []
        for d in tr.desc(lab):
            fd = tr.firstD.get(d)
            acc = any(r.ev == d and r.seq < ae.seq for r in tr.DR)
            if fd is not None and fd.seq < ae.seq and acc:
                stt = ae.snap_all.get(d)
                if stt is None or stt[0] != 'completed' or stt[1] is not True:
                    bad.append((d, stt[:2] if stt else None))
        ctx.check(f'{prefix}.descendants_complete', not bad, ev=lab, incomplete=bad)
        ctx.witness('await returned' if by_main else 'in-handler await returned')


def eval_c03(ctx, tr):
    _await_checks(ctx, tr, 'C03', True)


def eval_c04(ctx, tr):
    _await_checks(ctx, tr, 'C04', False)


# ------------------------------------------------------------------ C05
def eval_c05(ctx, tr):
    for ab in tr.AB:
        if ab.by not in tr.Eh or ab.ev.startswith('idle:'):
            continue
        c = ab.ev
        ae = next((r for r in tr.AE if r.by == ab.by and r.ev == c and r.seq > ab.seq), None)
        s1 = ae.seq if ae is not None else tr.end
        fam = [c] + tr.desc(c)
        own = tr.Eh[ab.by].ev
        dc = tr.firstD.get(c)
        for e in tr.E:
            if ab.seq < e.seq < s1 and e.ev not in fam and e.ev != own:
                de = tr.firstD.get(e.ev)
                earlier = de is not None and dc is not None and de.seq < dc.seq
                ctx.check('C05.no_unrelated_earlier' if earlier else 'C05.no_unrelated_later', False,
                          awaiting=ab.by, child=c, ran=e.h)
                ctx.witness('unrelated ran during await')
        ctx.check('C05.no_unrelated_earlier', True)
        ctx.check('C05.no_unrelated_later', True)
        # "that child is processed immediately": when the in-handler await returns, the child has been processed
        if ae is not None and ae.outcome == 'return' and 'snap' in ae.f:
            sn = ae.snap
            ctx.check('C05.processed_inline', sn.get('status') == 'completed' and sn.get('signal') is True, awaiting=ab.by, child=c,
                      got=(sn.get('status'), sn.get('signal')), why='the in-handler await returned although the child had not been processed')
            if not (sn.get('status') == 'completed' and sn.get('signal') is True):
                # ... and until it is, nothing unrelated may run either (the awaiting event's own remaining handlers included)
                done = max([x.seq for x in tr.recs if x.kind == 'X' and x.ev in fam] or [tr.end])
                for e in tr.E:
                    if ae.seq < e.seq < done and e.ev not in fam:
                        ctx.check('C05.no_unrelated_later', False, awaiting=ab.by, child=c, ran=e.h, why='ran after the await returned an unprocessed child and before that child completed')


# ------------------------------------------------------------------ C06
def eval_c06(ctx, tr):
    par = set(ctx.cfg.get('parallel', []))
    for e2 in tr.E:
        for h1, e1 in tr.Eh.items():
            if h1 == e2.h or not tr.running(h1, e2.seq):
                continue
            ok = bool(tr.awaiting(h1, e2.seq))
            if not ok and e1.bus in par:
                for h3, e3 in tr.Eh.items():
                    if e3.bus == e1.bus and e3.ev == e1.ev and tr.running(h3, e2.seq) and tr.awaiting(h3, e2.seq):
                        ok = True
            if not ok and e1.ev == e2.ev and e1.bus == e2.bus and e1.bus in par:
                ok = True
            ctx.check('C06.overlap', ok, running=h1, started=e2.h)
            if not ok:
                ctx.witness('overlap')
    ctx.check('C06.overlap', True)


# ------------------------------------------------------------------ C08
def _res_key(snap):
    return {r[5]: (r[2], r[3], r[4]) for r in snap['results']}


def eval_c08(ctx, tr, final_snaps):
    # observation stream per event: AE(main, return) snapshots, OBS snapshots, final snapshot
    per = {}
    for r in tr.recs:
        if r.kind == 'AE' and r.outcome == 'return' and r.by not in tr.Eh and 'snap' in r.f:
            per.setdefault(r.ev, []).append((r.seq, 'await-return', r.snap, True))
        elif r.kind == 'AE' and r.outcome == 'return' and 'snap' in r.f:
            # an in-handler await that returned the event complete is an observation of completion as well
            sn = r.snap
            per.setdefault(r.ev, []).append((r.seq, 'in-handler await-return', sn, sn.get('status') == 'completed' and sn.get('signal') is True))
        elif r.kind == 'OBS' and 'snap' in r.f:
            s = r.snap
            per.setdefault(r.ev, []).append((r.seq, r.name, s, s.get('status') == 'completed' and s.get('signal') is True))
    for lab, s in final_snaps.items():
        per.setdefault(lab, []).append((tr.end, 'final', s, s.get('status') == 'completed' and s.get('signal') is True))
    for lab, obs in per.items():
        base = None
        for (seq, name, snap, observed_complete) in obs:
            if base is None:
                if observed_complete:
                    base = (seq, name, snap)
                    ctx.witness('completion observed')
                continue
            b = base[2]
            ctx.check('C08.no_regress', snap['status'] == 'completed' and snap['signal'] is True, ev=lab, first=base[1], later=name,
                      got=(snap['status'], snap['signal']))
            kb, kn = _res_key(b), _res_key(snap)
            ctx.check('C08.no_new_results', set(kn) <= set(kb), ev=lab, first=base[1], later=name, added=len(set(kn) - set(kb)))
            ctx.check('C08.results_frozen', all(kn.get(k) == v for k, v in kb.items()), ev=lab, first=base[1], later=name)


# ------------------------------------------------------------------ C09
def eval_c09(ctx, tr):
    evs = ctx.events
    explicit = ctx.cfg.get('explicit_parent', {})

    def result_of(inv_id):
        e = tr.Eh[inv_id]
        ev = evs[e.ev]
        for r in ev.event_results.values():
            if r.handler_name.rsplit('.', 1)[-1] == e.name and r.eventbus_name == ctx.buses[e.bus].name:
                return r
        return None

    all_results = [(lab, r) for lab, ev in evs.items() for r in ev.event_results.values()]
    for lab, fd in tr.firstD.items():
        if not any(r.ev == lab for r in tr.DR):
            continue  # never accepted anywhere
        x = evs[lab]
        if lab in explicit:
            ctx.check('C09.explicit_kept', x.event_parent_id == explicit[lab], ev=lab)
            if fd.caller in tr.Eh:
                # dispatched from inside a handler: still that handler's child (exactly once), whatever parent id it carries
                r = result_of(fd.caller)
                n_here = sum(1 for c in (r.event_children if r is not None else []) if c is x)
                n_else = sum(1 for (l2, r2) in all_results if r2 is not r for c in r2.event_children if c is x)
                first_dr = next((d for d in tr.DR if d.ev == lab), None)
                if first_dr is not None and first_dr.caller == fd.caller:
                    ctx.check('C09.child_once', n_here == 1 and n_else == 0, ev=lab, here=n_here, elsewhere=n_else, explicit_parent=True)
        elif fd.caller in tr.Eh:
            pe = evs[tr.Eh[fd.caller].ev]
            ctx.check('C09.parent', x.event_parent_id == pe.event_id, ev=lab, expected=tr.Eh[fd.caller].ev,
                      got=ctx.labels.get(x.event_parent_id, x.event_parent_id))
            # the first *accepted* dispatch decides whose child it is
            r = result_of(fd.caller)
            n_here = sum(1 for c in (r.event_children if r is not None else []) if c is x)
            # other handlers that dispatched the very same event object themselves (and had it accepted) may list it too;
            # what the property excludes is a listing under a handler that did not dispatch it
            others = [result_of(d.caller) for d in tr.DR if d.ev == lab and d.caller in tr.Eh and d.caller != fd.caller]
            n_else = sum(1 for (l2, r2) in all_results if r2 is not r and not any(r2 is o for o in others) for c in r2.event_children if c is x)
            for o in others:
                if o is not None:
                    n_o = sum(1 for c in o.event_children if c is x)
                    n_d = sum(1 for d in tr.DR if d.ev == lab and d.caller in tr.Eh and result_of(d.caller) is o)
                    ctx.check('C09.child_once', 1 <= n_o <= n_d, ev=lab, listed=n_o, dispatched=n_d,
                              why='a handler that dispatched the event itself lists it at least once and not more often than it dispatched it')
            first_dr = next((d for d in tr.DR if d.ev == lab), None)
            if first_dr is not None and first_dr.caller == fd.caller:
                ctx.check('C09.child_once', n_here == 1 and n_else == 0, ev=lab, here=n_here, elsewhere=n_else)
            ctx.witness('child dispatched')
        else:
            ctx.check('C09.parent', x.event_parent_id is None, ev=lab, caller=fd.caller,
                      got=ctx.labels.get(x.event_parent_id, x.event_parent_id))
            n_any = sum(1 for (l2, r2) in all_results for c in r2.event_children if c is x)
            ctx.check('C09.no_leak', n_any == 0, ev=lab, caller=fd.caller, n=n_any)
        ctx.check('C09.not_self', x.event_parent_id != x.event_id and not any(c is x for r in x.event_results.values() for c in r.event_children), ev=lab)
    for r in tr.recs:
        if r.kind == 'BUSREAD':
            after_fwd = bool(r.f.get('path')) and r.f['path'][-1] != ctx.buses[r.bus].name
            ctx.check('C09.event_bus_after_forward' if after_fwd else 'C09.event_bus', r.got == r.bus, h=r.h, got=r.got)


# ------------------------------------------------------------------ C11
def eval_c11(ctx, tr, final_snaps):
    evs = ctx.events
    for inv_id, ex in ctx.exc_objects.items():
        e = tr.Eh[inv_id]
        ev = evs[e.ev]
        res = [r for r in ev.event_results.values()
               if r.handler_name.rsplit('.', 1)[-1] == e.name and r.eventbus_name == ctx.buses[e.bus].name]
        ok = len(res) == 1 and res[0].status == 'error' and res[0].error is ex and res[0].result is None
        ctx.check('C11.captured', ok, h=inv_id, got=[(r.status, repr(r.error)[:80]) for r in res])
        ctx.witness('handler error')
    exc_ = excused_events(tr)
    for (bus, lab) in _uniq(tr.accepted()):
        for name in ctx.expected(bus, lab):
            n = tr.count(bus, lab, name)
            ctx.check('C11.others_once', (n <= 1) if lab in exc_ else (n == 1), bus=bus, ev=lab, handler=name, n=n)
    for lab, s in final_snaps.items():
        if any(r.ev == lab for r in tr.DR):
            ctx.check('C11.completes', s['status'] == 'completed' and s['signal'] is True, ev=lab, got=(s['status'], s['signal']))
    for r in tr.AE:
        if r.by not in tr.Eh and not r.ev.startswith('idle:'):
            ctx.check('C11.await_silent', r.outcome == 'return', ev=r.ev, outcome=r.outcome)
    # successful handlers' return values are recorded untouched
    for inv_id, val in ctx.returned.items():
        e = tr.Eh[inv_id]
        ev = evs[e.ev]
        res = [r for r in ev.event_results.values()
               if r.handler_name.rsplit('.', 1)[-1] == e.name and r.eventbus_name == ctx.buses[e.bus].name]
        ctx.check('C11.others_results', len(res) == 1 and res[0].status == 'completed' and res[0].result == val, h=inv_id)
    for (label, kw, ex) in getattr(ctx, 'acc_raised', []):
        # accessor raised: only legal with raise_if_any and then it must be a recorded error object of that event
        ev = evs[label]
        objs = [r.error for r in ev.event_results.values() if r.error is not None]
        mine = [o for o in ctx.exc_objects.values()]
        if "'raise_if_any': True" in kw:
            ctx.check('C11.accessor_raises_same', any(ex is o for o in mine), ev=label, got=repr(ex)[:80])
        else:
            ctx.check('C11.accessor_silent', isinstance(ex, ValueError) and not any(ex is o for o in objs), ev=label, got=repr(ex)[:80])
    for r in tr.recs:
        if r.kind == 'ACC' and r.outcome == 'return' and "'raise_if_any': True" in r.kw:
            ev = evs[r.ev]
            has_err = any(rr.error is not None for rr in ev.event_results.values())
            ctx.check('C11.accessor_raises_same', not has_err, ev=r.ev, why='raise_if_any=True returned although a handler error is recorded')


# ------------------------------------------------------------------ C14 (generic part)
def eval_c14(ctx, tr, fs, finished):
    excused = set()
    for h, x in tr.X.items():
        if x.outcome == 'cancelled':
            excused.update(tr.desc(tr.Eh[h].ev))
    for (bus, lab) in _uniq(tr.accepted()):
        if lab in excused:
            continue
        if any(lab.startswith(p) for p in ctx.cfg.get('c14_not_about', [])):
            continue       # (events whose fate is another, known finding's business in this scenario, e.g. F2's refused recursion level)
        ok = all(tr.count(bus, lab, n) == 1 for n in ctx.expected(bus, lab))
        s_ = fs.get(lab)
        done = s_ is not None and s_['status'] == 'completed'
        ctx.check('C14.accepted_processed', ok and done, bus=bus, ev=lab, status=s_['status'] if s_ else None,
                  why='dispatch() accepted the event but the bus did not process it')
    for r in tr.DX:
        # a rejected dispatch leaves no trace
        e = ctx.events[r.ev]
        inhist = e.event_id in ctx.buses[r.bus].event_history and not any(d.ev == r.ev and d.bus == r.bus for d in tr.DR)
        ctx.check('C14.no_trace', not inhist, bus=r.bus, ev=r.ev)


# ------------------------------------------------------------------ C17 (generic part, scenarios with cfg['wal'])
def eval_c17(ctx, tr, fs, finished):
    import json as _json
    import os as _os
    wal = ctx.cfg.get('wal') or []
    if not wal or not finished:
        return
    lines = getattr(ctx, 'wal_lines', [])
    for b in wal:
        mine = [t for (p, t) in lines if _os.path.basename(p) == f'{b}.jsonl']
        ids = []
        ok_shape = True
        for t in mine:
            try:
                ok_shape = ok_shape and t.endswith('\n') and t.count('\n') == 1
                ids.append(_json.loads(t).get('event_id'))
            except Exception:
                ok_shape = False
        ctx.check('C17.line_shape', ok_shape, bus=b)
        want = sorted(ctx.events[lab].event_id for lab in _uniq([r.ev for r in tr.DR if r.bus == b]) if ctx.events[lab].__class__.__name__ != 'U')
        ctx.check('C17.one_line_per_processed', sorted(i for i in ids if i) == want, bus=b, lines=len(ids), processed=len(want))
        if ids:
            ctx.witness('wal written')


# ------------------------------------------------------------------ C16 (generic part: scenarios with a 'stop' step)
def eval_c16(ctx, tr):
    for r in tr.recs:
        if r.kind != 'STOPE':
            continue
        ctx.check('C16.bounded', r.t - r.t0 <= 1, bus=r.bus, why='stop() took longer than timeout + 1 s')
        late = [e for e in tr.E if e.bus == r.bus and e.seq > r.seq]
        ctx.check('C16.no_start_after', not late, bus=r.bus, late=[e.h for e in late])
        ctx.witness('stop returned')
    for r in tr.recs:
        if r.kind == 'STOPB' and not any(x.kind == 'STOPE' and x.bus == r.bus and x.seq > r.seq for x in tr.recs):
            ctx.check('C16.returns', False, bus=r.bus, why='stop() still blocked at the virtual horizon')


# ------------------------------------------------------------------ C15
def eval_c15(ctx, tr):
    for ab in tr.AB:
        if not ab.ev.startswith('idle:'):
            continue
        bus = ab.ev.split(':', 1)[1]
        ae = next((r for r in tr.AE if r.by == ab.by and r.ev == ab.ev and r.seq > ab.seq), None)
        if ae is None:
            ctx.check('C15.live', False, bus=bus, why='wait_until_idle() still blocked at the virtual horizon')
            continue
        ctx.check('C15.live', True)
        ob = next((r for r in tr.OBS if r.seq > ae.seq and r.name == 'after_idle' and r.bus == bus), None)
        if ob is None:
            continue
        ctx.witness('idle returned')
        busy = [(l, s) for (l, s) in ob.hist if s in ('pending', 'started')]
        ctx.check('C15.sound', ob.qsize == 0 and not busy, bus=bus, qsize=ob.qsize, busy=busy)
        for r in tr.DR:
            if r.bus == bus and r.seq < ab.seq:
                for name in ctx.expected(bus, r.ev):
                    es = [e for e in tr.E if e.bus == bus and e.ev == r.ev and e.name == name]
                    done = (bool(es) or r.ev in excused_events(tr)) and all((tr.X.get(e.h) is not None and tr.X[e.h].seq < ob.seq) for e in es)
                    ctx.check('C15.sound', done, bus=bus, ev=r.ev, handler=name, why='event accepted before the call had not finished processing')


# ------------------------------------------------------------------ C07
def eval_c07(ctx, tr, finished):
    fw_all = getattr(ctx, 'forwards', [])
    evs = ctx.events
    for lab, fd in tr.firstD.items():
        first_dr = next((d for d in tr.DR if d.ev == lab), None)
        if first_dr is None:
            continue
        # (src, dst) forwards everything; (src, dst, class name) only events of that class
        fw = [(f[0], f[1]) for f in fw_all if len(f) == 2 or (lab in evs and type(evs[lab]).__name__ == f[2])]
        entry = first_dr.bus
        reach, todo = [entry], [entry]
        while todo:
            x = todo.pop(0)
            for (s_, d_) in fw:
                if s_ == x and d_ not in reach:
                    reach.append(d_)
                    todo.append(d_)
        # extra explicit dispatches of the same object to other buses (re-dispatch) extend the reachable set
        for d in tr.DR:
            if d.ev == lab and d.caller != 'fwd' and d.bus not in reach:
                reach.append(d.bus)
                todo = [d.bus]
                while todo:
                    x = todo.pop(0)
                    for (s_, d_) in fw:
                        if s_ == x and d_ not in reach:
                            reach.append(d_)
                            todo.append(d_)
        for b in ctx.buses:
            for name in ctx.expected(b, lab):
                n = tr.count(b, lab, name)
                ctx.check('C07.reach_once', n == (1 if b in reach else 0), ev=lab, bus=b, handler=name, n=n, reachable=b in reach)
            if b not in reach:
                stray = [e for e in tr.E if e.bus == b and e.ev == lab]
                ctx.check('C07.reach_once', not stray, ev=lab, bus=b, why='handler ran on an unreachable bus')
        arrival = []
        for d in tr.DR:
            if d.ev == lab and d.bus not in arrival:
                arrival.append(d.bus)
        names = [ctx.buses[b].name for b in arrival]
        ctx.check('C07.path', list(evs[lab].event_path) == names and sorted(arrival) == sorted(reach), ev=lab,
                  got=list(evs[lab].event_path), arrival=arrival, reach=reach)
        ctx.check('C07.same_object', all(d.same for d in tr.DR if d.ev == lab), ev=lab)
        if finished:
            have = {(r.eventbus_name, r.handler_name.rsplit('.', 1)[-1]) for r in evs[lab].event_results.values()}
            want = {(ctx.buses[b].name, n) for b in reach for n in ctx.expected(b, lab)}
            ctx.check('C07.results_accumulate', want <= have, ev=lab, missing=sorted(want - have))
        if len(reach) > 1:
            ctx.witness('forwarded')
    ctx.check('C07.terminates', bool(finished), why='forwarding scenario still busy at the virtual horizon')


# ------------------------------------------------------------------ C10 (generic, for scenarios with finite time-outs)
def eval_c10(ctx, tr, fs, finished):
    from .base import Exact
    tos = {k: v for k, v in (ctx.cfg.get('timeouts') or {}).items() if v is not None and Exact(v) < 30}
    if not tos:
        return
    evs = ctx.events
    for lab, tv in tos.items():
        if lab not in evs or lab not in tr.firstD:
            continue
        T = Exact(tv)
        fam = [lab] + tr.desc(lab)
        timed_out = False
        for e in tr.entries(ev=lab):
            x = tr.exit_of(e.h)
            res = [r for r in fs[lab]['results'] if r[0] == e.name and r[1] == ctx.buses[e.bus].name]
            if x is None:
                ctx.check('C10.cancelled_at_deadline', False, h=e.h, why='handler never exited')
                continue
            if x.outcome == 'cancelled':
                timed_out = True
                ctx.witness('timeout fired')
                # the cancellation arrives when the handler's clean-up starts (if it has any), not when the clean-up has finished
                cl_ = next((r for r in tr.recs if r.kind == 'CLEANUP' and r.h == e.h), None)
                t_cancel = cl_.t if cl_ is not None else x.t
                ctx.check('C10.cancelled_at_deadline', t_cancel == e.t + T, h=e.h, why='cancellation instant != enter + T')
                later = [r for r in tr.recs if r.seq > x.seq and (r.f.get('h') == e.h or r.f.get('by') == e.h or r.f.get('caller') == e.h)]
                ctx.check('C10.stops_executing', not later, h=e.h)
                ctx.check('C10.timeout_error', len(res) == 1 and res[0][2] == 'error' and res[0][4] == 'TimeoutError', h=e.h, got=res)
            else:
                ctx.check('C10.cancelled_at_deadline', x.t - e.t <= T, h=e.h, why='handler outlived its time-out without being cancelled')
                ctx.check('C10.result_recorded', len(res) == 1 and res[0][2] in ('completed', 'error'), h=e.h, got=res)
        if not timed_out:
            ctx.witness('no timeout')
        # every handler registered for the timed event ran exactly once
        for d in tr.DR:
            if d.ev == lab:
                for name in ctx.expected(d.bus, lab):
                    n = tr.count(d.bus, lab, name)
                    ctx.check('C10.siblings_run', n == 1, ev=lab, handler=name, n=n)
        sp = fs[lab]
        ctx.check('C10.event_completes', sp['status'] == 'completed' and sp['signal'] is True, ev=lab, got=(sp['status'], sp['signal']))
        for d in tr.desc(lab):
            if not any(r.ev == d for r in tr.DR):
                continue
            sd = fs[d]
            nonterm = [r for r in sd['results'] if r[2] in ('pending', 'started')]
            ctx.check('C10.children_cancelled', not nonterm, ev=d, got=nonterm)
            ctx.check('C10.touched_events_complete', sd['status'] == 'completed' and sd['signal'] is True, ev=d, got=(sd['status'], sd['signal']))
            for e in tr.entries(ev=d):
                ctx.check('C10.no_double_run', e.n == 1, h=e.h)
        # unrelated (later) events are still processed exactly once and complete
        for (bn, other) in _uniq(tr.accepted()):
            if other in fam or other in tos:
                continue
            if tr.parent_inv(other) is not None:
                continue
            ok = all(tr.count(bn, other, nme) == 1 for nme in ctx.expected(bn, other))
            so = fs[other]
            ctx.check('C10.later_events_run', ok and so['status'] == 'completed' and so['signal'] is True, ev=other, got=(so['status'], so['signal']))
    for ab in tr.AB:
        if ab.ev.startswith('idle:'):
            ae = next((r for r in tr.AE if r.by == ab.by and r.ev == ab.ev and r.seq > ab.seq), None)
            ctx.check('C10.idle', ae is not None, why='wait_until_idle() still blocked at the virtual horizon')


def final_snaps(ctx):
    return {lab: ctx.snap(e) for lab, e in ctx.events.items()}


def tag_paths(ctx, tr):
    """trace predicates (from harness records only) that known findings may be conditioned on."""
    for h, x in tr.X.items():
        if x.outcome != 'cancelled':
            continue
        # h was cancelled while suspended in an in-handler await and, at that very moment, a handler of a descendant event that it
        # was processing inline was running and got cancelled with it
        waits = [r for r in tr.AE if r.by == h and r.outcome == 'cancelled']
        if not waits:
            continue
        for h2, x2 in tr.X.items():
            if h2 != h and x2.outcome == 'cancelled' and x2.seq < x.seq and tr.Eh[h2].seq > tr.Eh[h].seq:
                ctx.tag('timeout_during_inline_child')


def tag_paths2(ctx, tr):
    # an in-handler await of a child that lives on ANOTHER bus, during which the inline drain first ran a handler of some other event
    # (a suspension in which the other bus's own run loop can take the child off its queue): finding F1's mechanism
    for ab in tr.AB:
        if ab.by not in tr.Eh or ab.ev.startswith('idle:'):
            continue
        c = ab.ev
        fd = tr.firstD.get(c)
        if fd is None or fd.bus == tr.Eh[ab.by].bus:
            continue
        ae = next((r for r in tr.AE if r.by == ab.by and r.ev == c and r.seq > ab.seq), None)
        end = ae.seq if ae is not None else tr.end
        fam = [c] + tr.desc(c)
        if any(fd.seq < e.seq < end and e.ev not in fam for e in tr.E):
            ctx.tag('cross_bus_await_with_intervening_handler')


def tag_paths3(ctx, tr):
    # two handlers (parallel bus) are suspended awaiting the SAME event at the same time: the one whose inline drain did not take
    # the event finds nothing to process, spins 1000 zero-sleeps and returns it unfinished (finding F20)
    for i, a in enumerate(tr.AB):
        if a.by not in tr.Eh or a.ev.startswith('idle:'):
            continue
        ae = next((r for r in tr.AE if r.by == a.by and r.ev == a.ev and r.seq > a.seq), None)
        end = ae.seq if ae is not None else tr.end
        for b in tr.AB:
            if b is not a and b.ev == a.ev and b.by != a.by and b.by in tr.Eh and a.seq <= b.seq < end:
                ctx.tag('siblings_await_same_event')


def tag_paths4(ctx, tr):
    # a handler was cancelled (time-out) while its in-handler await was processing, inline, an event that is neither its own event
    # nor a descendant of it (finding F0: the drain takes whatever is at the queue head): that unrelated event's running handler is
    # cancelled with it and its remaining handlers never start
    for h, x in tr.X.items():
        if x.outcome != 'cancelled':
            continue
        own = tr.Eh[h].ev
        fam = [own] + tr.desc(own)
        for h2, x2 in tr.X.items():
            if h2 == h or x2.outcome != 'cancelled' or not (tr.Eh[h].seq < tr.Eh[h2].seq and x2.seq <= x.seq):
                continue
            if tr.Eh[h2].ev not in fam and any(ab.by == h and ab.seq < tr.Eh[h2].seq for ab in tr.AB):
                ctx.tag('unrelated_event_inline_under_timeout')
        # ... or the time-out fired right after the drain had taken the unrelated event off its queue, before any of its handlers
        # started: it was accepted before the await began, is not a descendant, and none of its handlers ever ran
        for ae in tr.AE:
            if ae.by != h or ae.outcome != 'cancelled':
                continue
            ab = next((b for b in reversed(tr.AB) if b.by == h and b.ev == ae.ev and b.seq < ae.seq), None)
            if ab is None:
                continue
            for d in tr.DR:
                if d.seq < ab.seq and d.ev not in fam and not any(e.ev == d.ev for e in tr.E) and ctx.expected(d.bus, d.ev):
                    ctx.tag('unrelated_event_inline_under_timeout')


def eval_c18(ctx, tr, finished):
    # expect() as a scenario step: an expect that names one event must get exactly that event if its first handler on that bus started
    # while the call was pending; afterwards no temporary handler is left in the registry
    for b in tr.recs:
        if b.kind != 'EXPB':
            continue
        e = next((r for r in tr.recs if r.kind == 'EXPE' and r.by == b.by and r.seq > b.seq), None)
        ctx.check('C18.terminates', e is not None, by=b.by)
        if e is None or b.f.get('want') is None:
            continue
        want = b.want
        first = next((x for x in tr.E if x.bus == b.bus and x.ev == want and x.seq > b.seq), None)
        lastx = max([x.seq for x in tr.recs if x.kind == 'X' and x.bus == b.bus and x.ev == want] or [None], key=lambda v: -1 if v is None else v)
        if first is not None and lastx is not None and lastx < e.seq:
            ctx.check('C18.first_match', e.outcome == 'match' and e.ev == want, by=b.by, want=want, got=(e.outcome, e.f.get('ev')),
                      why='the awaited event was processed on that bus while expect() was pending, yet expect() did not return it')
            ctx.witness('expect matched')
        if e.outcome == 'match':
            ctx.check('C18.never_nonmatching', e.ev == want, by=b.by, want=want, got=e.ev)
    if any(r.kind == 'EXPB' for r in tr.recs):
        # the temporary subscription does not affect the other handlers: every accepted event's own handlers still run exactly once
        for (bn, lab) in _uniq(tr.accepted()):
            if lab in excused_events(tr):
                continue
            for name in ctx.expected(bn, lab):
                ctx.check('C18.others_unaffected', tr.count(bn, lab, name) == 1, bus=bn, ev=lab, handler=name, n=tr.count(bn, lab, name))
        if finished:
            left = [getattr(h, '__name__', '') for bb in ctx.buses.values() for hs in bb.handlers.values() for h in hs if 'expect(' in getattr(h, '__name__', '')]
            ctx.check('C18.unsubscribed', not left, left=left)


def eval_c13(ctx, tr):
    # tree scenarios with a history limit (cfg observe_history): after every accepted dispatch the history respects the limit and no
    # event that is still in flight on that bus (accepted there, its handlers there not all finished, by the harness's own records)
    # has been evicted while a completed one is kept
    hist = ctx.cfg.get('max_history') or {}
    for o in tr.OBS:
        if o.name != 'after_dispatch' or o.f.get('bus') not in hist or hist[o.bus] is None:
            continue
        N = hist[o.bus]
        ctx.check('C13.bound_after_step', o.hist_len <= N, bus=o.bus, hist=o.hist, N=N)
        kept = dict(o.hist)
        if any(s == 'completed' for s in kept.values()):
            missing = [r.ev for r in tr.DR if r.bus == o.bus and r.seq < o.seq and r.ev not in kept and ctx.expected(o.bus, r.ev)
                       and not tr.handlers_done(r.ev, o.seq, [(o.bus, n) for n in ctx.expected(o.bus, r.ev)])]
            ctx.check('C13.order_live', not missing, bus=o.bus, missing=missing, kept=o.hist,
                      why='an event still in flight on this bus was evicted while completed ones were kept')
            ctx.witness('history trimmed')


def evaluate(ctx, finished):
    tr = Trace(ctx.records)
    tag_paths(ctx, tr)
    tag_paths2(ctx, tr)
    tag_paths3(ctx, tr)
    tag_paths4(ctx, tr)
    fs = final_snaps(ctx)
    eval_c01(ctx, tr, finished)
    eval_c02(ctx, tr)
    eval_c03(ctx, tr)
    eval_c04(ctx, tr)
    eval_c05(ctx, tr)
    eval_c06(ctx, tr)
    eval_c07(ctx, tr, finished)
    eval_c08(ctx, tr, fs)
    eval_c09(ctx, tr)
    eval_c10(ctx, tr, fs, finished)
    eval_c11(ctx, tr, fs)
    eval_c14(ctx, tr, fs, finished)
    eval_c17(ctx, tr, fs, finished)
    eval_c16(ctx, tr)
    eval_c15(ctx, tr)
    eval_c18(ctx, tr, finished)
    eval_c13(ctx, tr)
    ctx.check('GEN.main_finished', bool(finished))
    return tr
