"""vcheck — command line entry: run a property check / replay a counterexample."""
from __future__ import annotations

import argparse
import hashlib
import importlib
import json
import multiprocessing as mp
import os
import subprocess
import sys
import time

from . import base
from .runner import ROOT, Job, explore_job, load_known, replay_concrete

EXIT_OK, EXIT_VIOLATION, EXIT_INCONCLUSIVE = 0, 1, 2


def prop_module(pid):
    return importlib.import_module(f'vfw.props.{pid.lower()}')


_JOBS = None     # the job list built by the parent before the pool is forked (building it again per job costs more than many jobs)


def _run_job(args):
    job_index, pid, tier, seed, second = args
    jobs = _JOBS if _JOBS is not None else prop_module(pid).jobs(tier)
    job = jobs[job_index]
    return explore_job(job, seed=seed, second_solver=second)


def _run_twin(args):
    pid, tier, seed = args
    job = (_JOBS if _JOBS is not None else prop_module(pid).jobs(tier))[0]
    twin = Job(job.prop, job.template, _twin_fn(job.fn, job.prop), dict(job.cfg), max_paths=1)
    return explore_job(twin, seed=seed)


def _twin_fn(fn, prop):
    def run(ctx):
        fn(ctx)
        ctx.check(f'{prop}.__twin_false__', False)
    return run


def write_replay(v, twin=False):
    d = os.path.join(os.environ.get('VFW_OUT', ROOT), 'replays', v['property'])
    os.makedirs(d, exist_ok=True)
    body = dict(property=v['property'], clause=v['clause'], template=v['template'], cfg=v['cfg'], model=v['model'],
                twin=twin, info=v.get('info'), trace=v.get('trace'), path_condition=v.get('path_condition'))
    sha = hashlib.sha1(json.dumps(body, sort_keys=True).encode()).hexdigest()[:12]
    p = os.path.join(d, f'{"twin-" if twin else ""}{sha}.json')
    with open(p, 'w') as f:
        json.dump(body, f, indent=1)
    return p


def replay_subprocess(path):
    """Replay in a fresh interpreter that never imports z3.  rc 1 = reproduced, 0 = not reproduced."""
    r = subprocess.run([sys.executable, '-m', 'vfw.cli', 'replay', path], cwd=ROOT, capture_output=True, text=True, timeout=600)
    return r.returncode, (r.stdout + r.stderr)[-2000:]


def cmd_replay(path):
    with open(path) as f:
        rp = json.load(f)
    mod = prop_module(rp['property'])
    fn = mod.TEMPLATES[rp['template']]
    if rp.get('twin'):
        fn = _twin_fn(fn, rp['property'])
    job = Job(rp['property'], rp['template'], fn, rp['cfg'])
    assert 'z3' not in sys.modules, 'replay must run without the symbolic layer'
    ctx, verdicts = replay_concrete(job, rp['model'])
    vs = verdicts.get(rp['clause'], [])
    print(f'replay {path}: template={rp["template"]} cfg={rp["cfg"]} model={rp["model"]}')
    for line in ctx.trace_excerpt(80):
        print('   ', line)
    print(f'clause {rp["clause"]}: verdicts={vs}')
    if vs and not all(vs):
        print('REPRODUCED: clause violated on the real code at these concrete values')
        return 1
    print('not reproduced')
    return 0


def cmd_run(pid, tier, seed):
    t0 = time.time()
    from . import zsym
    st = zsym.self_test()
    mod = prop_module(pid)
    global _JOBS
    jobs = mod.jobs(tier)
    if tier == 'thorough':
        # the thorough tier explores everything the quick tier does, and more
        seen = {j.key() for j in jobs}
        for j in mod.jobs('quick'):
            if j.key() not in seen:
                seen.add(j.key())
                jobs.append(j)
    _JOBS = jobs
    second = (tier == 'thorough')
    nproc = min(int(os.environ.get('VERIF_JOBS', '16')), max(1, len(jobs)))
    ctxm = mp.get_context('fork')
    results = []
    with ctxm.Pool(nproc, maxtasksperchild=int(os.environ.get("VFW_TASKS_PER_CHILD", "12"))) as pool:
        twin_async = pool.apply_async(_run_twin, ((pid, tier, seed),))
        early = os.environ.get('VFW_EARLY_STOP')      # development aid (seed evaluation): stop once a job has reported a violation
        # longest jobs first (wall times of the previous run of this check, if its evidence file is still there): shortens the tail
        order = list(range(len(jobs)))
        try:
            with open(os.path.join(ROOT, 'evidence', f'{pid}.json')) as f:
                prev = {(j['template'], json.dumps(j['cfg'], sort_keys=True, default=str)): j['wall_s'] for j in json.load(f)['coverage']['jobs']}
            order.sort(key=lambda i: -prev.get((jobs[i].template, json.dumps(_short(jobs[i].cfg), sort_keys=True, default=str)), 1e9))
        except Exception:
            pass
        if early:
            order.reverse()      # (development aid: the small hand-picked jobs first)
        for r in pool.imap_unordered(_run_job, [(i, pid, tier, seed, second) for i in order]):
            results.append(r)
            if early and r['violations']:
                print(f'note: VFW_EARLY_STOP set, stopping after {len(results)}/{len(jobs)} jobs (not a complete run)')
                break
        twin = twin_async.get()
    t_pool = time.time() - t0

    errors = []
    for r in results:
        for e in r['errors']:
            errors.append(f'{r["template"]} {_short(r["cfg"])}: {e}')
    # ---- twin: the pipeline model -> replay file -> z3-free replay -> report must work in this run
    twin_ok = False
    tv = [v for v in twin['violations'] if v['clause'].endswith('__twin_false__')]
    if twin['errors'] or not tv:
        errors.append(f'twin (deliberately false clause) was not reported: {twin["errors"]}')
    else:
        tp = write_replay(tv[0], twin=True)
        rc, outp = replay_subprocess(tp)
        twin_ok = rc == 1
        if not twin_ok:
            errors.append(f'twin replay did not reproduce (rc={rc}): {outp[-300:]}')
        try:
            os.remove(tp)
        except OSError:
            pass

    # ---- violations: replay each before reporting
    violation_lines = []
    unreproduced = []
    for r in results:
        for v in r['violations']:
            p = write_replay(v)
            rc, outp = replay_subprocess(p)
            if rc == 1:
                violation_lines.append((v, p))
            else:
                unreproduced.append((v, p, outp))
    for v, p, outp in unreproduced:
        errors.append(f'counterexample for {v["clause"]} ({v["template"]} {_short(v["cfg"])} {v["model"]}) did not reproduce in concrete replay: '
                      f'encoding or stub wrong; replay file {p}')

    # ---- known findings: confirm one model per entry by concrete replay, print KNOWN-FINDING lines
    known = {e['id']: e for e in load_known(pid)}
    seen = {}
    for r in results:
        for fid, ks in r['known_seen'].items():
            s = seen.setdefault(fid, dict(regions=0, sample=None))
            s['regions'] += ks['regions']
            if s['sample'] is None:
                s['sample'] = ks
    known_lines = []
    for fid, s in sorted(seen.items()):
        e = known[fid]
        ks = s['sample']
        fn = mod.TEMPLATES[ks['template']]
        try:
            _, verdicts = replay_concrete(Job(pid, ks['template'], fn, ks['cfg']), ks['model'])
            vs = verdicts.get(ks['clause'], [])
            if not vs or all(vs):
                errors.append(f'known finding {fid}: sample model did not reproduce concretely ({ks})')
        except Exception as ex:
            errors.append(f'known finding {fid}: concrete replay failed: {type(ex).__name__}: {ex}')
        known_lines.append(f'KNOWN-FINDING: property={pid} {fid} clause={e["clause"]} template={e["template"]} region=[{e.get("region", "true")}] '
                           f'{e["what"]} (violating regions this run: {s["regions"]}; e.g. {ks["model"]})')
    for fid, e in known.items():
        if fid not in seen:
            from .runner import _cfg_match
            tmpl_ran = any(r['template'] == e.get('template') and _cfg_match(e.get('config'), r['cfg']) for r in results)
            if tmpl_ran:
                print(f'note: known finding {fid} ({e["clause"]}) did not reproduce in this run (repaired, or outside this tier\'s templates)')

    not_encodable = sorted({w for r in results for w in r['witnesses'] if str(w).startswith('NOT-ENCODABLE')})
    for w in not_encodable:
        print(f'note: {w} (that kernel decides nothing on this tree; the other templates of the property still gate)')
    for line in known_lines:
        print(line)
    for v, p in violation_lines:
        print(f'VIOLATION property={pid} replay={p}')
        print(f'  clause={v["clause"]} template={v["template"]} cfg={_short(v["cfg"])} model={v["model"]} info={str(v.get("info"))[:300]}')
    for e in errors:
        print('INCONCLUSIVE:', e)

    # ---- evidence
    wall = time.time() - t0
    regions = sum(r['regions'] for r in results)
    n_classes = sum(r['n_nontrivial_classes'] for r in results)
    funcs = sorted(set().union(*[set(r['functions']) for r in results])) if results else []
    samples = []
    for r in results:
        for s in r['samples'][:1]:
            samples.append(s)
    samples = samples[:8]
    meta = getattr(mod, 'META', {})
    clause_tot = {}
    for r in results:
        for c, cr in r['clause_regions'].items():
            t = clause_tot.setdefault(c, dict(regions=0, obligations=0, violated=0))
            for k in t:
                t[k] += cr[k]
    ev = dict(
        property_id=pid, tier=tier, seed=seed, level='other',
        coverage=dict(
            explanation=meta.get('explanation', '') + f' This run: {len(jobs)} jobs (template x configuration), {regions} solver-characterised regions, '
                        f'{sum(r["obligations"] for r in results)} SMT obligations, closure queries unsat for '
                        f'{sum(1 for r in results if r.get("closure") == "unsat")}/{len(results)} jobs.',
            evaluations=regions,
            distinct_nontrivial=n_classes,
            rule='one evaluation = one explored path = a region of the declared input domain given by its path condition; '
                 'distinct_nontrivial = number of distinct (job, monitor-trace digest) classes in which at least one symbolic branch was decided',
            samples=samples,
            exhaustive=all(r['exhaustive'] for r in results) and not errors,
            obligations=sum(r['obligations'] for r in results),
            discharged=sum(r['discharged'] for r in results),
            jobs=[dict(template=r['template'], cfg=_short(r['cfg']), regions=r['regions'], exhaustive=r['exhaustive'], frontier=r['frontier'],
                       closure=r.get('closure'), branch_queries=r['branch_queries'], other_queries=r['other_queries'],
                       solver_s=r['solver_s'], wall_s=r['wall_s'], witnesses=r['witnesses'], hangs=r['hangs'],
                       classes=r['n_classes'], horizon=r['horizon']) for r in results],
            bounds={(r['template'] + ' ' + json.dumps(_short(r['cfg']), sort_keys=True, default=str)): r['decls'] for r in results},
            clauses=clause_tot,
            functions_encoded=funcs,
            queries=dict(branch=sum(r['branch_queries'] for r in results), obligation_and_attribution=sum(r['other_queries'] for r in results),
                         closure=sum(1 for r in results if r.get('closure') in ('unsat', 'sat', 'unknown'))),
            solver_s=round(sum(r['solver_s'] for r in results), 3),
            second_solver=dict(engine='cvc5 (python wheel)', queries=sum(r['second_solver_checked'] for r in results),
                               disagreements=sum(r['second_solver_disagreements'] for r in results)) if second else 'thorough tier only',
            engine_self_test=st,
            twin_false_clause_reported_and_replayed=twin_ok,
            known_findings_seen={fid: dict(regions=s['regions'], sample=s['sample']) for fid, s in seen.items()},
            stubs=_stubs(),
            outside_the_claim=meta.get('outside', []),
            inconclusive=errors,
            not_encodable=not_encodable,
        ),
        assumptions=meta.get('assumptions', []) + COMMON_ASSUMPTIONS,
        wall_s=round(wall, 2),
        phases=dict(exploration_pool_s=round(t_pool, 2), replay_and_reporting_s=round(wall - t_pool, 2)),
        violations=len(violation_lines),
    )
    evdir = os.path.join(os.environ.get('VFW_OUT', ROOT), 'evidence')
    os.makedirs(evdir, exist_ok=True)
    with open(os.path.join(evdir, f'{pid}.json'), 'w') as f:
        json.dump(ev, f, indent=1, default=str)
    print(f'{pid} tier={tier} jobs={len(jobs)} regions={regions} classes={n_classes} obligations={ev["coverage"]["obligations"]} '
          f'violations={len(violation_lines)} known={len(seen)} inconclusive={len(errors)} wall={wall:.1f}s')
    if violation_lines:
        return EXIT_VIOLATION
    if errors:
        return EXIT_INCONCLUSIVE
    return EXIT_OK


def _short(cfg):
    if isinstance(cfg, dict) and 'scenario' in cfg:
        out = {'scenario': cfg['scenario'], 'order': cfg.get('order')}
        for k in ('box', 'parallel', 'timeouts', 'max_history', 'wal', 'plain_buses'):
            if cfg.get(k):
                out[k] = cfg[k]
        return out
    return cfg


def _stubs():
    from . import env
    return list(env.STUBS_ACTIVE)


COMMON_ASSUMPTIONS = [
    'library code takes zero CPU time and timers are not late, except where a template says otherwise (block: synchronous user work of symbolic duration; sleep_steps: a solver-chosen number of loop iterations at one instant; late_timer: one timer noticed k iterations late; executor_delay); equal deadlines fire in insertion order; one thread',
    'time is real-valued: float rounding of durations is outside the claim',
    'hang verdict = waiter still blocked at the virtual horizon printed per job',
    'trusted: z3 5.1.0, CPython 3.12, stock asyncio Task/Future/Queue/Event/Semaphore/timeouts, VLoop, the proxy layer, the monitors',
]


def main(argv=None):
    ap = argparse.ArgumentParser(prog='vcheck')
    sub = ap.add_subparsers(dest='cmd', required=True)
    r = sub.add_parser('run')
    r.add_argument('property')
    r.add_argument('--tier', default=os.environ.get('VERIF_TIER', 'quick'), choices=['quick', 'thorough'])
    r.add_argument('--seed', type=int, default=int(os.environ.get('VERIF_SEED', '0') or 0))
    p = sub.add_parser('replay')
    p.add_argument('path')
    a = ap.parse_args(argv)
    if a.cmd == 'replay':
        return cmd_replay(a.path)
    try:
        return cmd_run(a.property.upper(), a.tier, a.seed)
    except base.HarnessError as ex:
        print(f'INCONCLUSIVE: {type(ex).__name__}: {ex}')
        return EXIT_INCONCLUSIVE


if __name__ == '__main__':
    sys.exit(main())
