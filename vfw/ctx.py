"""Template context: symbolic-input declarations, virtual loop, monitor records, scenario helpers.

A template is a function `fn(ctx)` that declares its inputs, builds a scenario through the
public bubus API, runs it on `ctx.loop`, and reports clause verdicts with `ctx.check(...)`.
The same function runs in two modes:

* mode 'sym'      — inputs are z3 proxies, branches fork, verdicts may be symbolic obligations;
* mode 'concrete' — inputs are `Exact`/int/bool taken from a solver model (replay, no z3).
"""
from __future__ import annotations

import asyncio
import contextvars
import hashlib

from . import env
from .base import SyncHang, Exact, HarnessError, Horizon, PathAbort, is_sym, zand, znot, zor
from .vloop import VLoop

_CUR = contextvars.ContextVar('vfw_current_invocation', default=None)


class Rec:
    __slots__ = ('seq', 't', 'kind', 'f')

    def __init__(self, seq, t, kind, f):
        self.seq = seq
        self.t = t
        self.kind = kind
        self.f = f

    def __getattr__(self, k):
        try:
            return self.f[k]
        except KeyError:
            raise AttributeError(k)

    def brief(self):
        vals = []
        for k, v in self.f.items():
            if k in ('snap', 'snap_all', 'hist', 'path'):
                continue
            vals.append(f'{k}={v}')
        return f'{self.kind}(' + ','.join(vals) + ')'

    def __repr__(self):
        return f'#{self.seq}@{self.t}:{self.brief()}'


class Inv:
    """One handler invocation (or the pseudo-invocation of main / an external actor)."""

    def __init__(self, ctx, ident, bus=None, event=None, name=None):
        self.ctx = ctx
        self.id = ident  # e.g. 'A:P1:hP#1' | 'main' | 'actor:x'
        self.bus = bus
        self.event = event
        self.name = name
        self.outcome = None

    async def sleep(self, d):
        await asyncio.sleep(d)

    def dispatch(self, bus, ev):
        ctx = self.ctx
        if getattr(bus, '_vctx', None) is None:
            # a plain EventBus (not the recording subclass): record the call here
            lab = ctx.label(ev)
            ctx.first_dispatch.setdefault(lab, self.id)
            ctx.rec('D', bus=bus._vfw_name, ev=lab, caller=self.id)
            try:
                r = bus.dispatch(ev)
            except BaseException as ex:
                ctx.rec('DX', bus=bus._vfw_name, ev=lab, caller=self.id, exc=type(ex).__name__)
                raise
            ctx.rec('DR', bus=bus._vfw_name, ev=lab, caller=self.id, same=(r is ev))
            return r
        ctx._explicit = self.id
        try:
            return bus.dispatch(ev)
        finally:
            ctx._explicit = None

    async def wait(self, ev):
        """`await ev` with await-begin / await-end records."""
        ctx = self.ctx
        lab = ctx.label(ev)
        ctx.rec('AB', by=self.id, ev=lab)
        try:
            r = await ev
        except asyncio.CancelledError:
            ctx.rec('AE', by=self.id, ev=lab, outcome='cancelled')
            raise
        except BaseException as ex:
            ctx.rec('AE', by=self.id, ev=lab, outcome='raise:' + type(ex).__name__)
            raise
        ctx.rec('AE', by=self.id, ev=lab, outcome='return', same=(r is ev), snap=ctx.snap(ev), snap_all=ctx.snap_all())
        return r


def make_bus_class():
    EventBus = env.EventBus

    class HBus(EventBus):
        """EventBus whose public dispatch() is recorded (D / DR / DX)."""
        _vctx = None

        def dispatch(self, event):  # name must stay 'dispatch': forwarding detection keys on it
            ctx = self._vctx
            if ctx is None:
                return super().dispatch(event)
            lab = ctx.label(event)
            caller = ctx._explicit
            ctx._explicit = None
            if caller is None:
                caller = 'fwd' if lab in ctx.first_dispatch else 'unknown'
            ctx.first_dispatch.setdefault(lab, caller)
            ctx.rec('D', bus=self._vfw_name, ev=lab, caller=caller)
            try:
                r = super().dispatch(event)
            except BaseException as ex:
                ctx.rec('DX', bus=self._vfw_name, ev=lab, caller=caller, exc=type(ex).__name__)
                raise
            ctx.rec('DR', bus=self._vfw_name, ev=lab, caller=caller, same=(r is event))
            if self.max_history_size and ctx.cfg.get('observe_history'):
                # buses with a history limit: what the history looks like right after every accepted dispatch (C13's generic clauses)
                ctx.obs('after_dispatch', bus=self)
            return r

    return HBus


_HBUS = None


class Ctx:
    def __init__(self, mode, cfg, driver=None, values=None):
        global _HBUS
        self.mode = mode
        self.cfg = dict(cfg)
        self.drv = driver
        self.values = values or {}
        self.decls: dict = {}
        self.records: list[Rec] = []
        self.results: list = []  # (clause, verdict(bool|SymBool), info)
        self.witnesses: set = set()
        self.tags: set = set()   # trace predicates a known finding may require (e.g. 'timeout_during_inline_child')
        self.labels: dict = {}
        self.events: dict = {}
        self.first_dispatch: dict = {}
        self._explicit = None
        self.buses: dict = {}
        self.inv_count: dict = {}
        self.hang = False
        self.hang_reason = None
        self.horizon = None
        self.loop: VLoop | None = None
        self.step_hook = None
        self.notes: dict = {}
        self.registered: list = []  # (bus name, pattern key, handler name)
        if _HBUS is None:
            _HBUS = make_bus_class()
        env.reset(order=self.cfg.get('order', ()), keep_semaphores=bool(self.cfg.get('keep_semaphores')))

    # ---------------------------------------------------------------- inputs
    def _decl(self, name, kind, lo, hi, values=None):
        self.decls[name] = dict(kind=kind, lo=None if lo is None else str(lo), hi=None if hi is None else str(hi),
                                **({'values': [str(v) for v in values]} if values else {}))

    def real(self, name, lo, hi):
        self._decl(name, 'real', lo, hi)
        if self.mode == 'sym':
            from . import zsym
            return zsym.SymReal(self.drv.declare(name, 'real', lo, hi))
        v = Exact(self.values[name]) if name in self.values else Exact(lo)
        if not (Exact(lo) <= v <= Exact(hi)):
            raise HarnessError(f'replay value {name}={v} outside declared domain [{lo},{hi}]')
        return v

    def int(self, name, lo, hi):
        self._decl(name, 'int', lo, hi)
        if self.mode == 'sym':
            from . import zsym
            return zsym.SymInt(self.drv.declare(name, 'int', lo, hi))
        v = int(self.values.get(name, lo))
        if not (lo <= v <= hi):
            raise HarnessError(f'replay value {name}={v} outside declared domain [{lo},{hi}]')
        return v

    def flag(self, name):
        self._decl(name, 'bool', None, None)
        if self.mode == 'sym':
            from . import zsym
            return zsym.SymBool(self.drv.declare(name, 'bool'))
        return bool(self.values.get(name, False))

    def enum(self, name, values):
        values = tuple(values)
        self._decl(name, 'int', 0, len(values) - 1, values)
        if self.mode == 'sym':
            from . import zsym
            return zsym.SymEnum(self.drv.declare(name, 'int', 0, len(values) - 1), values)
        return values[int(self.values.get(name, 0))]

    def pick(self, name, values):
        """Enum that is concretised immediately (shape selector: enumeration through the solver)."""
        e = self.enum(name, values)
        return e.pick() if is_sym(e) else e

    def require(self, cond):
        """Domain constraint (declaration time only)."""
        if self.mode == 'sym':
            if is_sym(cond):
                if self.drv.depth:
                    raise HarnessError('ctx.require() after a decision was taken')
                self.drv.add_domain(cond.e)
            elif not cond:
                raise HarnessError('ctx.require(False)')
        else:
            if not cond:
                raise HarnessError('replay values violate a declared domain constraint')

    # ---------------------------------------------------------------- loop
    def new_loop(self, horizon):
        self.horizon = Exact(horizon)
        self.loop = VLoop(horizon=self.horizon, step_hook=self.step_hook)
        return self.loop

    def now(self):
        return self.loop.time()

    def run(self, main_coro, settle=True):
        """Run main to completion or to the virtual horizon.  Returns True if main finished."""
        loop = self.loop
        import os
        import signal
        import threading
        limit = float(os.environ.get('VFW_RUN_WALL_LIMIT', '60'))
        armed = threading.current_thread() is threading.main_thread() and limit > 0

        def _fire(signum, frame):
            raise SyncHang(f'code under test did not yield to the event loop / finish within {limit:.0f} s of CPU time')
        if armed:
            # CPU time of this process, not wall time: a busy machine must not turn a slow path into a hang verdict
            old = signal.signal(signal.SIGVTALRM, _fire)
            signal.setitimer(signal.ITIMER_VIRTUAL, limit)
        try:
            loop.run_until_complete(main_coro)
            return True
        except Horizon as h:
            self.hang = True
            self.hang_reason = str(h)
            self.rec('HORIZON', reason=str(h))
            return False
        except SyncHang as h:
            # e.g. a synchronous infinite loop inside the library: a hang like any other (the liveness clauses decide)
            self.hang = True
            self.hang_reason = str(h)
            self.rec('HORIZON', reason=str(h))
            return False
        finally:
            if armed:
                signal.setitimer(signal.ITIMER_VIRTUAL, 0)
                signal.signal(signal.SIGVTALRM, old)

    def teardown(self):
        if self.loop is not None:
            for b in list(self.buses.values()):
                try:
                    b._is_running = False
                except Exception:
                    pass
            self.loop.abandon()

    # ---------------------------------------------------------------- records
    def rec(self, kind, **f):
        r = Rec(len(self.records), self.loop.time() if self.loop else None, kind, f)
        self.records.append(r)
        return r

    def label(self, ev):
        return self.labels.get(ev.event_id, ev.event_id[-6:])

    def ev(self, cls, label, **fields):
        e = cls(**fields)
        self.labels[e.event_id] = label
        self.events[label] = e
        return e

    def adopt(self, e, label):
        self.labels[e.event_id] = label
        self.events[label] = e
        return e

    def snap(self, ev):
        """bubus's own view of an event (used by oracles that are *about* that view)."""
        try:
            sig = ev.event_completed_signal
            res = []
            for hid, r in ev.event_results.items():
                v = r.result
                if isinstance(v, env.BaseEvent):
                    vd = 'event:' + self.label(v)
                else:
                    vd = repr(v)[:60]
                res.append((r.handler_name.rsplit('.', 1)[-1], r.eventbus_name, r.status, vd, type(r.error).__name__ if r.error else None, r.id))
            return dict(status=ev.event_status, signal=bool(sig.is_set()) if sig is not None else None, results=res,
                        path=list(ev.event_path), parent=ev.event_parent_id)
        except Exception as ex:  # pragma: no cover
            return dict(error=repr(ex))

    def snap_all(self):
        out = {}
        for lab, e in self.events.items():
            try:
                sig = e.event_completed_signal
                out[lab] = (e.event_status, bool(sig.is_set()) if sig is not None else None,
                            tuple((r.handler_name.rsplit('.', 1)[-1], r.eventbus_name, r.status) for r in e.event_results.values()))
            except Exception as ex:  # pragma: no cover
                out[lab] = ('error', repr(ex), ())
        return out

    def obs(self, name, ev=None, bus=None, **extra):
        f = dict(name=name, **extra)
        if ev is not None:
            f['ev'] = self.label(ev)
            f['snap'] = self.snap(ev)
        if bus is not None:
            f['bus'] = bus._vfw_name
            f['hist_len'] = len(bus.event_history)
            f['hist'] = [(self.label(e), e.event_status) for e in bus.event_history.values()]
            f['qsize'] = bus.event_queue.qsize() if bus.event_queue else 0
            f['idle_flag'] = bool(bus._on_idle.is_set()) if bus._on_idle else None
        return self.rec('OBS', **f)

    # ---------------------------------------------------------------- scenario helpers
    def bus(self, name, cls=None, **kw):
        # name_ = the name requested from bubus (several buses may ask for the same one); `name` stays the harness label
        req = kw.pop('name_', name)
        b = (cls or _HBUS)(name=req, **kw)
        b._vfw_name = name
        if cls is None:
            b._vctx = self
        self.buses[name] = b
        return b

    @property
    def main(self):
        return Inv(self, 'main')

    def actor(self, name):
        return Inv(self, 'actor:' + name)

    def on(self, bus, pattern, name, body=None, sync=False, ret=None, register=True):
        """Register a monitored scenario handler.  body: async def body(inv, ev) (or sync def)."""
        ctx = self

        def _enter(ev):
            lab = ctx.label(ev)
            k = (bus._vfw_name, lab, name)
            n = ctx.inv_count.get(k, 0) + 1
            ctx.inv_count[k] = n
            inv = Inv(ctx, f'{bus._vfw_name}:{lab}:{name}#{n}', bus=bus, event=ev, name=name)
            ctx.rec('E', h=inv.id, bus=bus._vfw_name, ev=lab, name=name, n=n)
            return inv

        def _exit(inv):
            ctx.rec('X', h=inv.id, bus=bus._vfw_name, ev=ctx.label(inv.event), name=name, outcome=inv.outcome)

        if sync:
            def fn(ev):
                inv = _enter(ev)
                tok = _CUR.set(inv)
                try:
                    r = body(inv, ev) if body else ret
                    inv.outcome = 'return'
                    return r
                except BaseException as ex:
                    inv.outcome = 'raise:' + type(ex).__name__
                    raise
                finally:
                    _CUR.reset(tok)
                    _exit(inv)
        else:
            async def fn(ev):
                inv = _enter(ev)
                tok = _CUR.set(inv)
                try:
                    r = (await body(inv, ev)) if body else ret
                    inv.outcome = 'return'
                    return r
                except asyncio.CancelledError:
                    inv.outcome = 'cancelled'
                    raise
                except BaseException as ex:
                    inv.outcome = 'raise:' + type(ex).__name__
                    raise
                finally:
                    _CUR.reset(tok)
                    _exit(inv)
        fn.__name__ = name
        fn.__qualname__ = name
        if register:
            bus.on(pattern, fn)
            key = pattern if isinstance(pattern, str) else pattern.__name__
            r = self.rec('REG', bus=bus._vfw_name, key=key, name=name) if self.loop is not None and self.records else None
            self.registered.append((bus._vfw_name, key, name, r.seq if r is not None else -1))
        return fn

    def expected(self, bus_name, label):
        """names of monitored handlers registered on bus whose pattern matches the event labelled `label`."""
        et = self.events[label].event_type
        # a handler registered late (while the scenario runs) is only *expected* for events accepted by that bus afterwards
        first_dr = next((r.seq for r in self.records if r.kind == 'DR' and r.bus == bus_name and r.ev == label), None)
        out = []
        for (b, k, n, seq) in self.registered:
            if b == bus_name and (k == et or k == '*'):
                if seq < 0 or (first_dr is not None and seq < first_dr):
                    out.append(n)
        return out

    def may_run(self, bus_name, label):
        """handlers that may legitimately run for the event on that bus (expected ones plus late-registered ones)."""
        et = self.events[label].event_type
        return [n for (b, k, n, seq) in self.registered if b == bus_name and (k == et or k == '*')]

    # ---------------------------------------------------------------- verdicts
    def check(self, clause, ok, **info):
        """ok: bool, or a symbolic bool (an obligation discharged over the whole region)."""
        self.results.append((clause, ok, info))

    def witness(self, name):
        self.witnesses.add(name)

    def tag(self, name):
        self.tags.add(name)

    def digest(self):
        h = hashlib.sha1()
        for r in self.records:
            h.update(r.brief().encode())
            h.update(b'|')
        return h.hexdigest()[:16]

    def trace_excerpt(self, n=40):
        out = []
        for r in self.records[:n]:
            t = r.t
            out.append(f'{r.seq}@{t if not is_sym(t) else "<sym>"} {r.brief()}'[:200])
        if len(self.records) > n:
            out.append(f'... {len(self.records) - n} more')
        return out
