"""Environment model: imports the real bubus from /repo's working tree, resets process-global
state between paths, installs the stubs listed in DESIGN.md §4.2 (all by attribute assignment
from outside; nothing in /repo is edited)."""
from __future__ import annotations

import gc
import logging
import sys
import warnings
import weakref

warnings.simplefilter('ignore')

import bubus  # noqa: E402  (from /repo via the venv's .pth, or PYTHONPATH)
import bubus.helpers as helpers  # noqa: E402
import bubus.models as models  # noqa: E402
import bubus.service as service  # noqa: E402
from bubus import BaseEvent, EventBus  # noqa: E402

for _n in ('bubus', 'bubus.helpers', 'bubus.service', 'bubus.models', 'asyncio'):
    logging.getLogger(_n).disabled = True
logging.disable(logging.CRITICAL)

STUBS_ACTIVE: list[str] = []


class OrderedWeakSet:
    """Drop-in for EventBus.all_instances with a controlled iteration order.

    The stock WeakSet iterates in id()-dependent order and bubus's behaviour depends on it; the
    order is therefore a *configuration variable* of every multi-bus template (`order` = tuple of
    bus names; unlisted buses follow in creation order)."""

    def __init__(self, order=()):
        self._refs: list = []
        self._order = tuple(order)

    def _live(self):
        out = []
        for r in self._refs:
            o = r()
            if o is not None:
                out.append(o)
        return out

    def add(self, o):
        if not any(r() is o for r in self._refs):
            self._refs.append(weakref.ref(o))

    def discard(self, o):
        self._refs = [r for r in self._refs if r() is not None and r() is not o]

    remove = discard

    def __contains__(self, o):
        return any(r() is o for r in self._refs)

    def __len__(self):
        return len(self._live())

    def __iter__(self):
        live = self._live()
        rank = {n: i for i, n in enumerate(self._order)}
        # bubus may rename a bus on conflict; rank by the prefix given at creation
        def key(b):
            nm = getattr(b, '_vfw_name', None) or getattr(b, 'name', '')
            return (rank.get(nm, len(rank)),)
        return iter(sorted(live, key=key))  # sorted is stable: creation order among equals


def _noop(*a, **k):
    return None


_unraisable_installed = False


def install_static_stubs():
    global _unraisable_installed
    if hasattr(helpers, '_check_system_overload'):
        # the psutil sampling itself (blocks 0.1 s of real time) is replaced; the wrapper around it runs for real
        helpers._check_system_overload = lambda: (False, '')
        if 'helpers._check_system_overload -> (False, "") (psutil sampling blocks 0.1 s of real time)' not in STUBS_ACTIVE:
            STUBS_ACTIVE.append('helpers._check_system_overload -> (False, "") (psutil sampling blocks 0.1 s of real time)')
    if not _unraisable_installed:
        sys.unraisablehook = lambda *a: None  # abandoned coroutines of finished paths
        _unraisable_installed = True
        STUBS_ACTIVE.append('logging disabled; proxy __format__/__str__ return placeholders (message formatting is not the subject)')
        STUBS_ACTIVE.append('EventBus.all_instances -> order-controlled weak set (iteration order is a configuration variable)')
        STUBS_ACTIVE.append('module-level and class-level dict/list/set objects of the bubus modules are restored to their import-time content before every path (each path = a fresh process, as in the concrete replay)')


_paths_since_gc = 0
_real_open_file = None


def install_wal_stub(on_open=None, on_write=None):
    """Replace bubus.service.anyio.open_file by an in-memory async file for this path (restored by the next reset())."""
    global _real_open_file
    if _real_open_file is None:
        _real_open_file = service.anyio.open_file
    lines = []

    class _F:
        def __init__(self, path):
            self.path = str(path)

        async def __aenter__(self):
            return self

        async def __aexit__(self, *a):
            return False

        async def write(self, s_):
            if on_write:
                await on_write(self.path, s_)
            lines.append((self.path, s_))
            return len(s_)

    async def _open(path, mode='r', **kw):
        if on_open:
            await on_open(str(path), mode)
        return _F(path)
    service.anyio.open_file = _open
    if 'bubus.service.anyio.open_file -> in-memory async file (anyio runs real files in worker threads)' not in STUBS_ACTIVE:
        STUBS_ACTIVE.append('bubus.service.anyio.open_file -> in-memory async file (anyio runs real files in worker threads)')
    return lines


def _mutable_globals():
    """(owner, name, container) for every module-level / class-level plain dict, list or set of the bubus modules."""
    import bubus.logging as blog
    out = []
    for mod in (models, service, helpers, blog):
        for k, v in list(vars(mod).items()):
            if type(v) in (dict, list, set) and not k.startswith('__'):
                out.append((mod, k, v))
        for cn, c in list(vars(mod).items()):
            if isinstance(c, type) and getattr(c, '__module__', '') == mod.__name__:
                for k, v in list(vars(c).items()):
                    if type(v) in (dict, list, set) and not k.startswith('__') and not k.startswith('model_') and not k.startswith('_abc'):
                        out.append((c, k, v))
    return out


# process-global mutable state of the library as it is right after import (caches, registries, whatever a tree under test adds):
# every path starts from it, otherwise a path could see what an earlier path left behind and a replay in a fresh process would differ
_GLOBALS_AT_IMPORT = [(o, k, v, (dict(v) if type(v) is dict else list(v) if type(v) is list else set(v))) for (o, k, v) in _mutable_globals()]


def _restore_globals(skip=()):
    for o, k, v, snap in _GLOBALS_AT_IMPORT:
        if k in skip or getattr(o, k, None) is not v:
            continue
        if type(v) is dict:
            if v != snap:
                v.clear()
                v.update(snap)
        elif type(v) is list:
            if v != snap:
                v[:] = snap
        else:
            if v != snap:
                v.clear()
                v.update(snap)


def reset(order=(), keep_semaphores=False):
    """Fresh process-global bubus state for one path."""
    global _paths_since_gc
    install_static_stubs()
    warnings.simplefilter('ignore')      # (a template may have promoted warnings to errors)
    _restore_globals(skip=('GLOBAL_RETRY_SEMAPHORES', 'GLOBAL_RETRY_SEMAPHORE_LOOPS') if keep_semaphores else ())
    if _real_open_file is not None:
        service.anyio.open_file = _real_open_file
    EventBus.all_instances = OrderedWeakSet(order)
    service._global_eventbus_lock = None
    if not keep_semaphores:
        helpers.GLOBAL_RETRY_SEMAPHORES.clear()
    if hasattr(helpers, '_active_retry_operations'):
        helpers._active_retry_operations = 0
    if hasattr(helpers, '_last_overload_check'):
        helpers._last_overload_check = 0.0      # the first retry call of every path performs the (stubbed) overload check
    _paths_since_gc += 1
    if _paths_since_gc >= 50:
        _paths_since_gc = 0
        gc.collect()
