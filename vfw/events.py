"""Module-level event classes shared by all templates (pydantic class creation is slow; do it once)."""
from typing import Any

from bubus import BaseEvent


class P(BaseEvent):      # parent / root
    n: int = 0


class C(BaseEvent):      # child
    n: int = 0


class G(BaseEvent):      # grandchild
    n: int = 0


class L(BaseEvent):      # unrelated later event
    n: int = 0


class X(BaseEvent):      # unrelated / external actor's event
    n: int = 0


class U(BaseEvent):      # event carrying a payload that cannot be serialised to JSON
    blob: Any = None


class R(BaseEvent):      # recursive event
    n: int = 0


class TI(BaseEvent[int]):
    n: int = 0


class TS(BaseEvent[str]):
    n: int = 0
