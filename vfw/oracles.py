"""Derived notions over monitor records (DESIGN.md Appendix A).  All lineage / ordering facts used by
the oracles come from these records, never from bubus's own bookkeeping (which is the subject)."""
from __future__ import annotations


class Trace:
    def __init__(self, records):
        self.recs = list(records)
        self.E = [r for r in self.recs if r.kind == 'E']
        self.X = {r.h: r for r in self.recs if r.kind == 'X'}
        self.Eh = {r.h: r for r in self.E}
        self.D = [r for r in self.recs if r.kind == 'D']
        self.DR = [r for r in self.recs if r.kind == 'DR']
        self.DX = [r for r in self.recs if r.kind == 'DX']
        self.AB = [r for r in self.recs if r.kind == 'AB']
        self.AE = [r for r in self.recs if r.kind == 'AE']
        self.OBS = [r for r in self.recs if r.kind == 'OBS']
        self.end = len(self.recs)
        # first D per event
        self.firstD = {}
        for r in self.D:
            self.firstD.setdefault(r.ev, r)
        self._children = {}
        for ev, r in self.firstD.items():
            c = r.caller
            if c in self.Eh:
                self._children.setdefault(self.Eh[c].ev, []).append(ev)

    # ---- lineage
    def inv_event(self, h):
        return self.Eh[h].ev if h in self.Eh else None

    def children(self, ev):
        return list(self._children.get(ev, []))

    def desc(self, ev):
        out, todo = [], [ev]
        while todo:
            x = todo.pop()
            for c in self._children.get(x, []):
                if c not in out:
                    out.append(c)
                    todo.append(c)
        return out

    def parent_inv(self, ev):
        r = self.firstD.get(ev)
        return r.caller if r is not None and r.caller in self.Eh else None

    # ---- entries
    def entries(self, bus=None, ev=None, name=None):
        return [r for r in self.E if (bus is None or r.bus == bus) and (ev is None or r.ev == ev) and (name is None or r.name == name)]

    def count(self, bus, ev, name):
        return len(self.entries(bus, ev, name))

    def exit_of(self, h):
        return self.X.get(h)

    def first_entry_seq(self, bus, ev):
        es = self.entries(bus=bus, ev=ev)
        return es[0].seq if es else None

    # ---- enqueue order
    def enq(self, bus):
        out = []
        for r in self.DR:
            if r.bus == bus and r.ev not in out:
                out.append(r.ev)
        return out

    def accepted(self, bus=None):
        return [(r.bus, r.ev) for r in self.DR if bus is None or r.bus == bus]

    # ---- running / awaiting
    def running(self, h, seq):
        e = self.Eh.get(h)
        if e is None or e.seq >= seq:
            return False
        x = self.X.get(h)
        return x is None or x.seq > seq

    def awaiting(self, h, seq):
        """events h is awaiting at seq (AB before seq with no AE before seq)."""
        open_ = []
        for r in self.recs:
            if r.seq >= seq:
                break
            if r.kind == 'AB' and r.by == h:
                open_.append(r.ev)
            elif r.kind == 'AE' and r.by == h and r.ev in open_:
                open_.remove(r.ev)
        return open_

    def all_awaited_at(self, seq):
        """[(h, ev)] for every open await at seq."""
        open_ = []
        for r in self.recs:
            if r.seq >= seq:
                break
            if r.kind == 'AB':
                open_.append((r.by, r.ev))
            elif r.kind == 'AE' and (r.by, r.ev) in open_:
                open_.remove((r.by, r.ev))
        return open_

    def handlers_done(self, ev, seq, expected=None):
        """every handler invocation for ev has its X before seq; `expected` = [(bus, name)] that must have entered."""
        for e in self.E:
            if e.ev == ev:
                x = self.X.get(e.h)
                if e.seq < seq and (x is None or x.seq > seq):
                    return False
        if expected:
            for (bus, name) in expected:
                es = [e for e in self.E if e.ev == ev and e.bus == bus and e.name == name and e.seq < seq]
                if not es:
                    return False
        return True

    def tree_done(self, ev, seq, expected_fn=None):
        """done_h: ev and all its (record-derived) descendants have all handler invocations exited before seq,
        and every accepted (bus, event) with matching scenario handlers has been entered."""
        for x in [ev] + self.desc(ev):
            exp = expected_fn(x) if expected_fn else None
            if not self.handlers_done(x, seq, exp):
                return False
            # a descendant dispatched after seq does not count; one dispatched before seq must be done
        return True
