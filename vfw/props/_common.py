import itertools
from fractions import Fraction

from ..runner import Job
from ..scenlib import t_tree


def mk(prop, sid, cfg, split=None, **kw):
    """One job, or — with split={'var': n} — the cross product of n equal closed sub-intervals per variable
    (sub-boxes overlap only on their faces; their union is the original box, so exhaustiveness is preserved
    while the work spreads over worker processes)."""
    cfg = dict(cfg)
    cfg['scenario'] = sid
    if not split:
        return [Job(prop, 'tree', t_tree, cfg, **kw)]
    names = list(split)
    pieces = []
    for v in names:
        lo, hi = (Fraction(x) for x in cfg['reals'][v])
        n = split[v]
        pieces.append([(lo + (hi - lo) * i / n, lo + (hi - lo) * (i + 1) / n) for i in range(n)])
    out = []
    for combo in itertools.product(*pieces):
        c = dict(cfg)
        c['reals'] = dict(cfg['reals'])
        for v, (a, b) in zip(names, combo):
            c['reals'][v] = [str(a), str(b)]
        c['box'] = {v: [str(a), str(b)] for v, (a, b) in zip(names, combo)}
        out.append(Job(prop, 'tree', t_tree, c, **kw))
    return out


def flat(xs):
    out = []
    for x in xs:
        out.extend(x if isinstance(x, list) else [x])
    return out


def matrix_jobs(prop, fam, tier, **kw):
    """feature-matrix scenario families (scenlib.matrix1 / matrix2): pairwise-covering subset in the quick tier,
    a large sample / the full product in the thorough tier."""
    from .. import scenlib as S
    out = []
    if fam == 'm1':
        for row in S.matrix1_rows(tier):
            out += mk(prop, S.matrix1_id(*row), S.matrix1(*row), max_paths=4000, **kw)
    elif fam == 'm2':
        for row in S.matrix2_rows(tier):
            out += mk(prop, S.matrix2_id(*row), S.matrix2(*row), max_paths=4000, **kw)
    elif fam == 'm3':
        for i in S.matrix3_rows(tier):
            sym = ('d1',) if tier == 'quick' else ('d1', 'd2', 't1')
            out += mk(prop, f'm3/{i}', S.seq_program(i, sym), max_paths=3000, **kw)
    elif fam == 'm4':
        for i in S.matrix4_rows(tier):
            sym = ('d1', 'b') if tier == 'quick' else ('d1', 'd2', 't1', 'b')
            out += mk(prop, f'm4/{i}', S.seq_program(i, sym, ext=True), max_paths=3000, **kw)
    return out
