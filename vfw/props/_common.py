import itertools
from fractions import Fraction

from ..runner import Job
from ..scenlib import t_tree


def mk(prop, sid, cfg, split=None, **kw):
    """One job, or — with split={'var': n} — the cross product of n equal closed sub-intervals per variable
    (sub-boxes overlap only on their faces; their union is the original box, so exhaustiveness is preserved
    while the work spreads over worker processes)."""
    cfg = dict(cfg)
    cfg['scenario'] = sid
    if not split:
        return [Job(prop, 'tree', t_tree, cfg, **kw)]
    names = list(split)
    pieces = []
    for v in names:
        lo, hi = (Fraction(x) for x in cfg['reals'][v])
        n = split[v]
        pieces.append([(lo + (hi - lo) * i / n, lo + (hi - lo) * (i + 1) / n) for i in range(n)])
    out = []
    for combo in itertools.product(*pieces):
        c = dict(cfg)
        c['reals'] = dict(cfg['reals'])
        for v, (a, b) in zip(names, combo):
            c['reals'][v] = [str(a), str(b)]
        c['box'] = {v: [str(a), str(b)] for v, (a, b) in zip(names, combo)}
        out.append(Job(prop, 'tree', t_tree, c, **kw))
    return out


def flat(xs):
    out = []
    for x in xs:
        out.extend(x if isinstance(x, list) else [x])
    return out
