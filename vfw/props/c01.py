"""C01 — exactly-once handler delivery per (event, bus, handler)."""
from .. import scenlib as S
from ._common import flat, matrix_jobs, mk, t_tree

META = dict(
    explanation='One- and two-bus programs (handlers registered by class, by type-name string and by "*", sync and async, raising; '
                'children awaited / fire-and-forget / yield-then-await; the same event object dispatched again in flight and '
                'after completion; the same handler name on two buses with forwarding) run on the real bus code with handler '
                'durations and the external dispatcher\'s instant as z3 reals; per region every (bus, accepted event, matching '
                'handler) must have exactly one entry record and no handler may run for a non-matching or non-accepted event.',
    assumptions=['handler entry is observed by the first statement of each scenario handler'],
    outside=['> 3 buses, depth > 3', 'handlers registered/unregistered while events are in flight (except expect, C18)', 'time-outs (C10)'],
)
TEMPLATES = {'tree': t_tree}


def jobs(tier):
    out = [
        mk('C01', 'child/await/two_handlers', S.child('await', k=1, two_handlers=True)),
        mk('C01', 'child/ff/two_handlers', S.child('ff', k=1, two_handlers=True)),
        mk('C01', 'child/yield_await', S.child('yield_await', k=1, actor=False)),
        mk('C01', 'child/raising', S.child('await', k=0, raising='parent_sibling')),
        mk('C01', 'redispatch', S.redispatch()),
        mk('C01', 'roots3', S.roots3()),
        mk('C01', 'par/shared_child', S.par_shared_child()),
        mk('C01', 'flood/small_history', S.flood_idle()),
        mk('C01', 'flood_retry_rejected', S.flood_retry_rejected()),
        mk('C01', 'flood_order', S.flood_order()),
        mk('C01', 'expects_then_late_handler', S.expects_then_late_handler()),
        mk('C01', 'samefn/AB', S.samefn(('A', 'B'))),
        mk('C01', 'samefn/BA', S.samefn(('B', 'A'))),
    ]
    if tier == 'thorough':
        out += [
            mk('C01', 'child/depth3', S.child('await', k=1, depth=3, two_handlers=True), max_paths=8000),
            mk('C01', 'child/depth3/ff', S.child('ff', k=1, depth=3), max_paths=8000),
            mk('C01', 'x2/other_running', S.two_bus_await('other_running', ('A', 'B')), max_paths=8000),
            mk('C01', 'x2/other_fresh', S.two_bus_await('other_fresh', ('B', 'A')), max_paths=8000),
            mk('C01', 'fw/chain3', S.forward_chain(3, topo='chain', second_event=True), max_paths=8000),
            mk('C01', 'par', S.parallel_handlers(('A', 'B')), max_paths=8000),
        ]
    out += matrix_jobs('C01', 'm1', tier)
    out += matrix_jobs('C01', 'm2', tier)
    out += mk('C01', 'deep4/await', S.deep4('await'))
    out += mk('C01', 'deep4/ff', S.deep4('ff'))
    out += mk('C01', 'deep4/ff/wild_raise', S.deep4('ff', wild_raise=True))
    out += matrix_jobs('C01', 'm3', tier)
    out += matrix_jobs('C01', 'm4', tier)
    return flat(out)
