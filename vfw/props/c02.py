"""C02 — per-bus FIFO processing order."""
from .. import scenlib as S
from ._common import flat, matrix_jobs, mk, t_tree

META = dict(
    explanation='Per bus, the order of first handler entry is compared with the order of accepted dispatch() calls on that bus '
                '(recorded by a harness subclass overriding the public dispatch, so forwards count) over all values of dispatch '
                'instants and handler durations; an inversion is allowed only if, by the harness\'s own lineage, the overtaking '
                'event is one some handler was awaiting at that moment or a descendant of it. Serial buses: no handler of a '
                'later event starts while a handler of an earlier one is running and not suspended in an await.',
    assumptions=['events without a monitored handler on a bus are unobservable there and skipped for that bus'],
    outside=['> 3 buses', '> 3 events per bus'],
)
TEMPLATES = {'tree': t_tree}


def jobs(tier):
    out = [
        mk('C02', 'roots3', S.roots3()),
        mk('C02', 'child/await/k2', S.child('await', k=2)),
        mk('C02', 'child/ff/k1', S.child('ff', k=1)),
        mk('C02', 'drain/AB', S.drain(('A', 'B'))),
        mk('C02', 'accessor_timeout_in_handler', S.accessor_timeout_in_handler()),
        mk('C02', 'warm_other_bus/AB/idle_gap', S.warm_other_bus_during_await(('A', 'B'), gap='3/2')),
        mk('C02', 'recur_then_other', S.recur_then_other()),
        mk('C02', 'cross_dispatch_after/idle_gap', S.cross_dispatch_after('idle_gap')),
        mk('C02', 'cross_dispatch_after/recursion', S.cross_dispatch_after('recursion')),
        mk('C02', 'cross_bus_await_into_sync_only_event', S.cross_bus_await_into_sync_only_event()),
        mk('C02', 'drain/BA', S.drain(('B', 'A')), witnesses=('fifo inversion',)),
        mk('C02', 'fw/fanin', S.forward_chain(3, topo='fanin', second_event=True)),
        mk('C02', 'fw/chain3', S.forward_chain(3, topo='chain', second_event=True)),
        mk('C02', 'flood_order', S.flood_order()),
    ]
    if tier == 'thorough':
        out += [
            mk('C02', 'fw/chain3/CBA', S.forward_chain(3, topo='chain', second_event=True, order=['C', 'B', 'A']), max_paths=8000),
            mk('C02', 'fw/diamond', S.forward_chain(4, topo='diamond', second_event=True), max_paths=8000),
            mk('C02', 'x2/independent', S.two_bus_independent(('A', 'B')), max_paths=8000),
            mk('C02', 'child/yield_await/k1', S.child('yield_await', k=1), max_paths=8000),
        ]
    out += matrix_jobs('C02', 'm1', tier)
    out += matrix_jobs('C02', 'm2', tier)
    return flat(out)
