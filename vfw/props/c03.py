"""C03 — awaiting an event from ordinary code returns iff its whole handler/descendant tree is done."""
from .. import scenlib as S
from ._common import flat, matrix_jobs, mk, t_tree

META = dict(
    explanation='Event trees (depth <= 3, awaited / fire-and-forget / yield-then-await children, children on another bus, raising '
                'handlers, self-recursion of symbolic depth r) run on the real bus code with handler durations and an external '
                'dispatch instant as z3 reals. At the instant the external await returns, the harness records (not bubus\'s own '
                'lineage) decide whether every handler of the event and of every descendant has exited; bubus\'s view (status, '
                'signal, result statuses) is snapshotted at the same instant. Liveness: the await must return before the horizon.',
    assumptions=['no external action is scheduled after the last descendant exits except bubus\'s own polling'],
    outside=['forwarded roots (C08)', 'depth > 3, fan-out > 2', 'time-outs (C10)'],
)
TEMPLATES = {'tree': t_tree}


def _wal_await():
    cfg = S.wal_unserialisable()
    cfg['main'] = [['root', 'A', 'P', 'P1'], ['root', 'A', 'U', 'U1'], ['root', 'A', 'L', 'L1'], ['await', 'U1'], ['await', 'L1'], ['idle', 'A'], ['obs_all', 'end']]
    return cfg


def jobs(tier):
    W = ('await returned',)
    out = [
        mk('C03', 'child/await', S.child('await', k=1), witnesses=W),
        mk('C03', 'child/ff', S.child('ff', k=0), witnesses=W),
        mk('C03', 'child/yield_await', S.child('yield_await', k=0, actor=False), witnesses=W),
        mk('C03', 'child/raising', S.child('await', k=0, raising='child', actor=False), witnesses=W),
        mk('C03', 'late_grandchild', S.late_grandchild(), witnesses=W),
        mk('C03', 'timeout_bystander', S.timeout_bystander(), witnesses=W),
        mk('C03', 'timeout_bystander/two_handlers', S.timeout_bystander(True), witnesses=W),
        mk('C03', 'child/await/k0/decoys', dict(S.child('await', k=0, child_ff=True), decoys={'A': 2}), witnesses=W),
        mk('C03', 'deep_ff_chain', S.deep_ff_chain(), witnesses=W),
        mk('C03', 'wal_unserialisable', _wal_await(), witnesses=W),
        mk('C03', 'recur/await', S.recur('await', 4)),
        mk('C03', 'recur/ff', S.recur('ff', 4)),
        mk('C03', 'x2/other_fresh', S.two_bus_await('other_fresh', ('A', 'B'), yield_first=False), witnesses=W),
        mk('C03', 'x2/other_fresh/BA', S.two_bus_await('other_fresh', ('B', 'A'), yield_first=False), witnesses=W),
    ]
    if tier == 'thorough':
        out += [
            mk('C03', 'child/depth3', S.child('await', k=1, depth=3), witnesses=W, max_paths=6000),
            mk('C03', 'child/depth3/ff', S.child('ff', k=1, depth=3), witnesses=W, max_paths=6000),
            mk('C03', 'child/two_handlers', S.child('await', k=1, two_handlers=True), witnesses=W, max_paths=6000),
            mk('C03', 'x2/other_running', S.two_bus_await('other_running', ('A', 'B')), witnesses=W, max_paths=6000),
            mk('C03', 'x2/other_running/BA', S.two_bus_await('other_running', ('B', 'A')), witnesses=W, max_paths=6000),
            mk('C03', 'x2/depth3', S.two_bus_await('other_fresh', ('A', 'B'), depth=3), witnesses=W, max_paths=6000),
        ]
    out += matrix_jobs('C03', 'm1', tier)
    out += matrix_jobs('C03', 'm2', tier)
    out += mk('C03', 'deep4/await', S.deep4('await'))
    out += mk('C03', 'deep4/ff', S.deep4('ff'))
    out += mk('C03', 'deep4/ff/wild_raise', S.deep4('ff', wild_raise=True))
    out += matrix_jobs('C03', 'm3', tier)
    out += matrix_jobs('C03', 'm4', tier)
    return flat(out)
