"""C04 — an in-handler await of a child never deadlocks and returns it complete."""
from .. import scenlib as S
from ._common import flat, matrix_jobs, mk, t_tree

META = dict(
    explanation='A handler on bus A dispatches a child to Y (its own bus, another bus that is already running, another bus never '
                'used before), optionally yields for a symbolic time before awaiting, the child handler runs for a symbolic time, '
                'nesting to depth 3, with both registry orders and with parallel_handlers. At the normal return of the in-handler '
                'await the child must be complete in the harness view (all its handlers and descendants exited) and in bubus\'s '
                'view (status, signal, result statuses); the await must return before the horizon.',
    assumptions=['awaits that end because the awaiting handler was cancelled are excluded, as the property says'],
    outside=['depth > 3', '> 2 buses'],
)
TEMPLATES = {'tree': t_tree}


def jobs(tier):
    W = ('in-handler await returned',)
    out = [
        mk('C04', 'same/immediate', S.two_bus_await('same', ('A', 'B'), yield_first=False), witnesses=W),
        mk('C04', 'same/yield', S.two_bus_await('same', ('A', 'B'), yield_first=True), witnesses=W),
        mk('C04', 'other_fresh/immediate/AB', S.two_bus_await('other_fresh', ('A', 'B'), yield_first=False), witnesses=W),
        mk('C04', 'other_fresh/immediate/BA', S.two_bus_await('other_fresh', ('B', 'A'), yield_first=False), witnesses=W),
        mk('C04', 'other_fresh/yield/AB', S.two_bus_await('other_fresh', ('A', 'B'), yield_first=True), witnesses=W),
        mk('C04', 'other_running/immediate/AB', S.two_bus_await('other_running', ('A', 'B'), yield_first=False), witnesses=W),
        mk('C04', 'other_running/yield/AB', S.two_bus_await('other_running', ('A', 'B'), yield_first=True), witnesses=W),
        mk('C04', 'child/depth3', S.child('await', k=0, depth=3, actor=False), witnesses=W),
        mk('C04', 'deep_ff_chain', S.deep_ff_chain(), witnesses=W),
        mk('C04', 'child/await/raising_chained', S.child('await', k=0, raising='child_chained', actor=False), witnesses=W),
        mk('C04', 'many_buses_backlog', S.many_buses_backlog(), witnesses=W),
        mk('C04', 'cross_ff_grandchild/AB', S.cross_ff_grandchild(('A', 'B')), witnesses=W),
        mk('C04', 'cross_ff_grandchild/BA', S.cross_ff_grandchild(('B', 'A')), witnesses=W),
    ]
    if tier == 'thorough':
        out += [
            mk('C04', 'other_running/yield/BA', S.two_bus_await('other_running', ('B', 'A'), yield_first=True), witnesses=W, max_paths=6000),
            mk('C04', 'other_fresh/yield/BA', S.two_bus_await('other_fresh', ('B', 'A'), yield_first=True), witnesses=W, max_paths=6000),
            mk('C04', 'other_fresh/depth3', S.two_bus_await('other_fresh', ('A', 'B'), yield_first=False, depth=3), witnesses=W, max_paths=6000),
            mk('C04', 'other_running/depth3', S.two_bus_await('other_running', ('A', 'B'), yield_first=False, depth=3), witnesses=W, max_paths=6000),
            mk('C04', 'par', S.parallel_handlers(('A', 'B')), witnesses=W, max_paths=6000),
            mk('C04', 'par/BA', S.parallel_handlers(('B', 'A')), witnesses=W, max_paths=6000),
            mk('C04', 'child/yield_await/k1', S.child('yield_await', k=1), witnesses=W, max_paths=6000),
        ]
    out += matrix_jobs('C04', 'm1', tier)
    out += matrix_jobs('C04', 'm2', tier)
    out += matrix_jobs('C04', 'm3', tier)
    out += matrix_jobs('C04', 'm4', tier)
    return flat(out)
