"""C05 — an awaited child jumps the queue."""
from .. import scenlib as S
from ._common import flat, mk, t_tree

META = dict(
    explanation='At the in-handler await, k unrelated events are already queued behind the parent (same bus and, in two-bus '
                'scenarios, another bus) and an external actor dispatches one more at a symbolic instant; from the harness '
                'records every handler entry between await-begin and await-end is classified as child/descendant, '
                'unrelated-enqueued-earlier or unrelated-enqueued-later.',
    assumptions=['sibling handlers of the awaiting handler\'s own event (parallel buses) are not counted as unrelated'],
    outside=['more than 2 queued unrelated events', 'more than 2 buses'],
)
TEMPLATES = {'tree': t_tree}


def _timed_child():
    """the awaited child (not the parent) has a short time-out and a depth-4 chain below it; an unrelated event arrives later."""
    cfg = S.matrix2(False, 'await_first', 'none', 'awaitG_L', 'ret', '1/4', 'C1')
    cfg['actors'] = dict(cfg['actors'])
    cfg['actors']['late'] = [['sleep', '1/8'], ['root', 'A', 'L', 'L2']]
    return cfg


def jobs(tier):
    W = ('in-handler await returned',)
    out = [
        mk('C05', 'child/await/k0', S.child('await', k=0), witnesses=W),
        mk('C05', 'child/await/k1', S.child('await', k=1), witnesses=W + ('unrelated ran during await',)),
        mk('C05', 'child/await/k2', S.child('await', k=2, actor=False), witnesses=W),
        mk('C05', 'child/yield_await/k0', S.child('yield_await', k=0), witnesses=W),
        mk('C05', 'drain/AB', S.drain(('A', 'B')), witnesses=W),
        mk('C05', 'par/await_two_later', S.par_await_two_later(), witnesses=W),
        mk('C05', 'child/await/ffG/k0', S.child('await', k=0, child_ff=True), witnesses=W),
        mk('C05', 'timed_child/depth4', _timed_child(), witnesses=W),
        mk('C05', 'small_history_tree/4', S.small_history_tree(4), witnesses=W),
        mk('C05', 'same_handler_three_levels_with_forward', S.same_handler_three_levels_with_forward(), witnesses=W),
        mk('C05', 'warm_other_bus/AB', S.warm_other_bus_during_await(('A', 'B')), witnesses=W),
        mk('C05', 'warm_other_bus/BA', S.warm_other_bus_during_await(('B', 'A')), witnesses=W),
        mk('C05', 'warm_other_bus/AB/second_loop', S.warm_other_bus_during_await(('A', 'B'), prelude=True), witnesses=W),
        mk('C05', 'warm_other_bus/AB/idle_gap', S.warm_other_bus_during_await(('A', 'B'), gap='3/2'), witnesses=W),
        mk('C05', 'x2/other_running/immediate', S.two_bus_await('other_running', ('A', 'B'), yield_first=False), witnesses=W),
        mk('C05', 'child/await/k0/decoys', dict(S.child('await', k=0), decoys={'A': 2}), witnesses=W),
    ]
    if tier == 'thorough':
        out += [
            mk('C05', 'child/depth3/k0', S.child('await', k=0, depth=3), witnesses=W, max_paths=6000),
            mk('C05', 'child/depth3/k1', S.child('await', k=1, depth=3), witnesses=W, max_paths=6000),
            mk('C05', 'child/yield_await/k1', S.child('yield_await', k=1), witnesses=W, max_paths=6000),
            mk('C05', 'drain/BA', S.drain(('B', 'A')), witnesses=W),
        ]
    return flat(out)
