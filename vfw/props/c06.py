"""C06 — cross-bus mutual exclusion of event processing."""
from .. import scenlib as S
from ._common import flat, matrix_jobs, mk, t_tree

META = dict(
    explanation='Two buses each with slow handlers, roots dispatched to different buses at symbolic instants; a bus first used from '
                'main vs. from inside a handler of another bus; a parallel_handlers bus; a handler suspended in an await while the '
                'child\'s handler runs on another bus. At every handler entry the harness computes, from enter/exit/await records, '
                'which other handlers are running and whether the overlap is one of the permitted kinds.',
    assumptions=['sync handlers have zero-length intervals'],
    outside=['> 2 buses (thorough: forwarding over 3)'],
)
TEMPLATES = {'tree': t_tree}


def jobs(tier):
    out = [
        mk('C06', 'independent/main/AB', S.two_bus_independent(('A', 'B'), 'main')),
        mk('C06', 'independent/handler/AB', S.two_bus_independent(('A', 'B'), 'handler'), witnesses=('overlap',)),
        mk('C06', 'x2/other_fresh', S.two_bus_await('other_fresh', ('A', 'B'), yield_first=False)),
        mk('C06', 'x2/other_running', S.two_bus_await('other_running', ('A', 'B'), yield_first=False)),
        mk('C06', 'par/AB', S.parallel_handlers(('A', 'B'))),
        mk('C06', 'par/same_named_handlers', S.par_same_named_handlers()),
        mk('C06', 'restart_with_new_bus', S.restart_with_new_bus()),
        mk('C06', 'warm_other_bus/AB', S.warm_other_bus_during_await(('A', 'B'))),
        mk('C06', 'warm_other_bus/AB/second_loop', S.warm_other_bus_during_await(('A', 'B'), prelude=True)),
        mk('C06', 'relay_forward_while_third_busy', S.relay_forward_while_third_busy(), split={'t1': 3}),
        mk('C06', 'long_handler_other_bus_waits', S.long_handler_other_bus_waits()),
        mk('C06', 'three_bus_stop', S.three_bus_stop()),
        mk('C06', 'late_first_use', S.late_first_use()),
        mk('C06', 'mixed_classes/A_first', S.mixed_bus_classes('A')),
        mk('C06', 'mixed_classes/B_first', S.mixed_bus_classes('B')),
    ]
    if tier == 'thorough':
        out += [
            mk('C06', 'independent/main/BA', S.two_bus_independent(('B', 'A'), 'main'), max_paths=6000),
            mk('C06', 'independent/handler/BA', S.two_bus_independent(('B', 'A'), 'handler'), max_paths=6000),
            mk('C06', 'par/BA', S.parallel_handlers(('B', 'A')), max_paths=6000),
            mk('C06', 'fw/chain3', S.forward_chain(3, topo='chain', second_event=True), max_paths=6000),
            mk('C06', 'drain/BA', S.drain(('B', 'A')), max_paths=6000),
        ]
    out += matrix_jobs('C06', 'm1', tier)
    out += matrix_jobs('C06', 'm2', tier)
    out += matrix_jobs('C06', 'm3', tier)
    out += matrix_jobs('C06', 'm4', tier)
    return flat(out)
