"""C07 — forwarding reaches each bus once, never loops, and records the path."""
from .. import env
from .. import scenlib as S
from ..events import P
from ..runner import Job
from ._common import flat, mk, t_tree

META = dict(
    explanation='Kernel (one inductive step from an arbitrary valid state): a real event whose event_path is an arbitrary '
                'duplicate-free sequence over 4 bus names (membership bits and a permutation index chosen through the solver) on a '
                'real bus with wildcard forwards to every bus: the real _get_applicable_handlers must select exactly the forwards '
                'whose target is not in the path plus the scenario handler, and the real dispatch on a target appends its name iff '
                'absent, preserving the prefix and the object. Scenarios: all 512 directed graphs over 3 buses including self-loops '
                '(adjacency bits as z3 booleans) x entry bus, and timed chains/diamonds/cycles/fan-ins with symbolic handler '
                'durations and a second event in flight, and two forwards to one target that is saturated to within a solver-chosen distance '
                'of its admission limit (second delivery refused next to an accepted one): per-bus probe counts, event_path = arrival order, same object, results '
                'accumulate, termination before the horizon.',
    assumptions=['the induction from the step kernel to all hop counts is argued in DESIGN.md, not machine-checked',
                 'graph3 scenarios use concrete (zero) handler durations; the timed scenarios cover durations'],
    outside=['> 4 buses', 'forwards registered while events are in flight'],
)

NAMES = ['A', 'B', 'C', 'D']


def t_kernel(ctx):
    """k.applicable: selection + path append from an arbitrary valid path state."""
    import itertools
    here = ctx.cfg['here']                      # bus processing the event (always in the path)
    member = {n: (True if n == here else bool(ctx.flag(f'in_{n}'))) for n in NAMES}
    present = [n for n in NAMES if member[n]]
    perms = list(itertools.permutations(present))
    pi = int(ctx.int('perm', 0, 23))
    if pi >= len(perms):
        ctx.rec('K', skip=True)
        return
    path = list(perms[pi])
    ctx.new_loop(horizon=3)
    out = {}

    async def main():
        buses = {n: ctx.bus(n) for n in NAMES}
        bus = buses[here]
        for n in NAMES:
            bus.on('*', buses[n].dispatch)      # includes a self-forward
        probe = ctx.on(bus, P, 'probe', ret='x')
        ev = ctx.ev(P, 'P1')
        ev.event_path.extend(buses[n].name for n in path)
        sel = bus._get_applicable_handlers(ev)
        targets = sorted(h.__self__._vfw_name for h in sel.values() if getattr(h, '__name__', '') == 'dispatch')
        out['targets'] = targets
        out['probe'] = any(h is probe for h in sel.values())
        # append step on every bus
        app = {}
        for n in NAMES:
            e2 = ctx.ev(P, 'Q' + n)
            e2.event_path.extend(buses[m].name for m in path)
            before = list(e2.event_path)
            r = buses[n].dispatch(e2)
            app[n] = (before, list(e2.event_path), r is e2)
        out['app'] = app
        for b in buses.values():
            b._is_running = False
            if b._runloop_task:
                b._runloop_task.cancel()

    ctx.run(main())
    want = sorted(n for n in NAMES if n not in path)
    ctx.check('C07.k_select', out.get('targets') == want and out.get('probe') is True, path=path, got=out.get('targets'), want=want)
    for n, (before, after, same) in out.get('app', {}).items():
        exp = before if n in before else before + [n]
        ctx.check('C07.k_append', after == exp and same, bus=n, before=before, after=after)
    if want:
        ctx.witness('forward selected')
    if len(want) < 3:
        ctx.witness('forward skipped')
    ctx.rec('K', path=''.join(path), here=here)


def t_graph3(ctx):
    """all digraphs over 3 buses (adjacency bits symbolic) x entry bus; zero durations."""
    from .. import clauses
    names = ['A', 'B', 'C']
    entry = ctx.cfg['entry']
    fixed = ctx.cfg.get('fixed', {})
    adj = {}
    for i in names:
        for j in names:
            k = f'e_{i}{j}'
            adj[(i, j)] = fixed[k] if k in fixed else bool(ctx.flag(k))
    ctx.new_loop(horizon=4)
    ctx.forwards = []
    import asyncio

    async def main():
        # the names the buses carry inside bubus are a configuration: plain, or each a prefix of the next ('Orders' / 'OrdersArchive')
        real = {'plain': {}, 'nested': {'A': 'Orders', 'B': 'OrdersArchive', 'C': 'OrdersArchiveEU'}}[ctx.cfg.get('naming', 'plain')]
        buses = {n: (ctx.bus(n, name_=real[n]) if n in real else ctx.bus(n)) for n in names}
        wiring_first = ctx.cfg.get('wiring') == 'first'      # the graph is wired before the buses' own handlers are attached
        if not wiring_first:
            for n in names:
                ctx.on(buses[n], P, f'h{n}', ret=n.lower())
        edges = [(i, j) for (i, j), on in adj.items() if on]
        if ctx.cfg.get('wiring_reversed'):
            edges.reverse()
        for (i, j) in edges:
            buses[i].on('*', buses[j].dispatch)
            ctx.forwards.append((i, j))
        if wiring_first:
            for n in names:
                ctx.on(buses[n], '*', f'h{n}', ret=n.lower())
        m = ctx.main
        e = m.dispatch(buses[entry], ctx.ev(P, 'P1', event_timeout=30.0))
        await m.wait(e)
        for n in names:
            ctx.rec('AB', by='main', ev='idle:' + n)
            await buses[n].wait_until_idle()
            ctx.rec('AE', by='main', ev='idle:' + n, outcome='return')
        await asyncio.sleep(0.5)
        ctx.rec('MAINEND')

    fin = ctx.run(main())
    from ..oracles import Trace
    tr = Trace(ctx.records)
    clauses.eval_c07(ctx, tr, fin)
    if any(adj[(n, n)] for n in names):
        ctx.witness('self-loop')
    if adj[('A', 'B')] and adj[('B', 'C')] and adj[('C', 'A')]:
        ctx.witness('cycle')
    if adj[('A', 'B')] and adj[('A', 'C')] and adj[('B', 'C')]:
        ctx.witness('diamond')


TEMPLATES = {'tree': t_tree, 'k.applicable': t_kernel, 'fw.graph3': t_graph3}


def jobs(tier):
    out = []
    for here in (['A', 'C'] if tier == 'quick' else NAMES):
        out.append(Job('C07', 'k.applicable', t_kernel, dict(here=here), witnesses=('forward selected', 'forward skipped')))
    for entry in ('A', 'B', 'C'):
        for ab in (False, True):
            for bc in (False, True):
                for ca in (False, True):
                    if tier == 'quick' and entry != 'A' and not (ab and bc):
                        continue
                    out.append(Job('C07', 'fw.graph3', t_graph3, dict(entry=entry, fixed={'e_AB': ab, 'e_BC': bc, 'e_CA': ca})))
                    if tier != 'quick' or (ab and bc) or entry == 'C':
                        out.append(Job('C07', 'fw.graph3', t_graph3, dict(entry=entry, naming='nested', fixed={'e_AB': ab, 'e_BC': bc, 'e_CA': ca})))
                    if tier != 'quick' or (ab and bc and ca):
                        out.append(Job('C07', 'fw.graph3', t_graph3, dict(entry=entry, wiring='first', fixed={'e_AB': ab, 'e_BC': bc, 'e_CA': ca})))
                        out.append(Job('C07', 'fw.graph3', t_graph3, dict(entry=entry, wiring='first', wiring_reversed=True, fixed={'e_AB': ab, 'e_BC': bc, 'e_CA': ca})))
    W = ('forwarded',)
    out += [
        mk('C07', 'fw/chain3', S.forward_chain(3, topo='chain', second_event=True), witnesses=W),
        mk('C07', 'fw/cycle3', S.forward_chain(3, topo='cycle', second_event=True), witnesses=W),
        mk('C07', 'fw/fanin', S.forward_chain(3, topo='fanin'), witnesses=W),
        mk('C07', 'fw/evict', S.fw_evict(), witnesses=W),
        mk('C07', 'fw/chain3/timeout', S.forward_chain(3, topo='chain', timeout='1/4'), witnesses=W),
        mk('C07', 'fw/deep4', S.fw_deep4(), witnesses=W),
        mk('C07', 'fw/same_names', S.fw_same_names(), witnesses=W),
        mk('C07', 'fw/idle_then_stop', S.fw_idle_then_stop(), witnesses=W),
        mk('C07', 'fw/target_loop_died', S.fw_target_loop_died(), witnesses=W),
        mk('C07', 'fw/evict/BADC', S.fw_evict(('B', 'A', 'D', 'C')), witnesses=W),
        mk('C07', 'fw/saturated_double', S.fw_saturated_double(), witnesses=W),
        mk('C07', 'fw/after_refused', S.fw_after_refused(), witnesses=W),
    ]
    if tier == 'thorough':
        out += [
            mk('C07', 'fw/diamond', S.forward_chain(4, topo='diamond', second_event=True), witnesses=W, max_paths=8000),
            mk('C07', 'fw/cycle3/CBA', S.forward_chain(3, topo='cycle', second_event=True, order=['C', 'B', 'A']), witnesses=W, max_paths=8000),
            mk('C07', 'fw/chain3/late', S.forward_chain(3, topo='chain', late=True), witnesses=W, max_paths=8000),
            mk('C07', 'samefn', S.samefn(('A', 'B')), witnesses=W, max_paths=8000),
            mk('C07', 'redispatch', S.redispatch(), max_paths=8000),
        ]
    return flat(out)
