"""C08 — completion is stable."""
from .. import scenlib as S
from ._common import flat, matrix_jobs, mk, t_tree
from ..runner import Job

META = dict(
    explanation='Snapshots (status, completion signal, result ids + statuses + value digests) are taken at the first observation of '
                '"complete" (external await return, or a poller reading status completed with the signal set at a symbolic instant) '
                'and compared with every later observation and the final state: no regression, no new results, results frozen. '
                'Forwarding chains/diamonds with per-bus handler durations, non-forwarded trees with late fire-and-forget '
                'grandchildren, re-dispatch of a completed event.',
    assumptions=[],
    outside=['> 4 buses'],
)
def t_two_loops(ctx):
    """An event is dispatched, awaited (while still pending) and observed complete in one event loop (one asyncio.run()); the same
    event object is then looked at from a second event loop, as scripts and test suites do.  It is still complete: signal set,
    `await event` and the accessors return at once with the same results."""
    import asyncio
    from ..base import Exact
    from ..events import P
    from ..runner import Job  # noqa
    d = ctx.real('d', 0, Exact('1/5'))
    keep = {}
    ctx.new_loop(horizon=5)
    bus = ctx.bus('A')

    async def hP(h, ev):
        await h.sleep(d)
        return 'p'
    ctx.on(bus, P, 'hP', hP)

    async def main1():
        m = ctx.main
        e = m.dispatch(bus, ctx.ev(P, 'P1', event_timeout=30.0))
        await m.wait(e)
        keep['e'] = e
        keep['snap1'] = ctx.snap(e)
        await bus.stop()
    ok1 = ctx.run(main1())
    ctx.check('C08.terminates', bool(ok1))
    if not ok1:
        return
    ctx.teardown()
    ctx.new_loop(horizon=5)
    out = {}

    async def main2():
        e = keep['e']
        out['snap2'] = ctx.snap(e)
        try:
            r = await asyncio.wait_for(e.event_result(), timeout=1.0)
            out['result'] = r
        except BaseException as ex:  # noqa
            out['result_exc'] = ex
        try:
            await asyncio.wait_for(_aw(e), timeout=1.0)
            out['await'] = 'returned'
        except BaseException as ex:  # noqa
            out['await'] = repr(ex)
        out['snap3'] = ctx.snap(e)

    async def _aw(e):
        return await e
    ok2 = ctx.run(main2())
    ctx.check('C08.terminates', bool(ok2))
    s1 = keep['snap1']
    ctx.check('C08.no_regress', s1['status'] == 'completed' and s1['signal'] is True, at='first loop', got=(s1['status'], s1['signal']))
    for k in ('snap2', 'snap3'):
        sn = out.get(k)
        if sn is None:
            continue
        ctx.check('C08.no_regress', sn['status'] == 'completed' and sn['signal'] is True, at=k + ' (second loop)', got=(sn['status'], sn['signal']))
        ctx.check('C08.results_frozen', sn['results'] == s1['results'], at=k)
    ctx.check('C08.no_regress', out.get('await') == 'returned' and out.get('result') == 'p', got=(out.get('await'), repr(out.get('result', out.get('result_exc')))[:80]),
              why='a completed event could not be awaited / read again from a second event loop')
    ctx.witness('completion observed')


TEMPLATES = {'tree': t_tree, 's1.two_loops': t_two_loops}


def jobs(tier):
    W = ('completion observed',)
    out = [
        mk('C08', 'late_grandchild', S.late_grandchild(), witnesses=W),
        mk('C08', 'redispatch', S.redispatch(), witnesses=W),
        mk('C08', 'child/ff', S.child('ff', k=0), witnesses=W),
        mk('C08', 'spawned_child_between_handlers/sync', S.spawned_child_between_handlers(True), witnesses=W),
        mk('C08', 'spawned_child_between_handlers/async', S.spawned_child_between_handlers(False), witnesses=W),
        mk('C08', 'read_after_completion', S.read_after_completion(), witnesses=W),
        mk('C08', 'spawned_late_child', S.spawned_late_child(), witnesses=W),
        [Job('C08', 's1.two_loops', t_two_loops, {}, witnesses=W)],
        mk('C08', 'read_after_completion/par', S.read_after_completion(parallel=True), witnesses=W),
        mk('C08', 'par_child_timeout', S.par_child_timeout(), witnesses=W),
        mk('C08', 'fw/chain2', S.forward_chain(2, topo='chain'), witnesses=W),
        mk('C08', 'fw/chain2/poll', S.forward_chain(2, topo='chain', poll=True), witnesses=W),
        mk('C08', 'fw/chain3', S.forward_chain(3, topo='chain'), witnesses=W),
        mk('C08', 'fw/late_await/no_target_handlers', S.fw_late_await(target_handlers=False), witnesses=W),
    ]
    if tier == 'thorough':
        out += [
            mk('C08', 'fw/cycle3', S.forward_chain(3, topo='cycle'), witnesses=W, max_paths=6000),
            mk('C08', 'par_child_timeout/poll', S.par_child_timeout(poll=True), witnesses=W, max_paths=6000),
            mk('C08', 'fw/diamond', S.forward_chain(4, topo='diamond'), witnesses=W, max_paths=6000),
            mk('C08', 'fw/chain3/CBA', S.forward_chain(3, topo='chain', order=['C', 'B', 'A']), witnesses=W, max_paths=6000),
            mk('C08', 'child/await/k1', S.child('await', k=1), witnesses=W, max_paths=6000),
            mk('C08', 'x2/other_running', S.two_bus_await('other_running', ('A', 'B')), witnesses=W, max_paths=6000),
        ]
    out += matrix_jobs('C08', 'm1', tier)
    out += matrix_jobs('C08', 'm2', tier)
    out += matrix_jobs('C08', 'm3', tier)
    out += matrix_jobs('C08', 'm4', tier)
    return flat(out)
