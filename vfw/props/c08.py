"""C08 — completion is stable."""
from .. import scenlib as S
from ._common import flat, matrix_jobs, mk, t_tree

META = dict(
    explanation='Snapshots (status, completion signal, result ids + statuses + value digests) are taken at the first observation of '
                '"complete" (external await return, or a poller reading status completed with the signal set at a symbolic instant) '
                'and compared with every later observation and the final state: no regression, no new results, results frozen. '
                'Forwarding chains/diamonds with per-bus handler durations, non-forwarded trees with late fire-and-forget '
                'grandchildren, re-dispatch of a completed event.',
    assumptions=[],
    outside=['> 4 buses'],
)
TEMPLATES = {'tree': t_tree}


def jobs(tier):
    W = ('completion observed',)
    out = [
        mk('C08', 'late_grandchild', S.late_grandchild(), witnesses=W),
        mk('C08', 'redispatch', S.redispatch(), witnesses=W),
        mk('C08', 'child/ff', S.child('ff', k=0), witnesses=W),
        mk('C08', 'spawned_child_between_handlers/sync', S.spawned_child_between_handlers(True), witnesses=W),
        mk('C08', 'spawned_child_between_handlers/async', S.spawned_child_between_handlers(False), witnesses=W),
        mk('C08', 'read_after_completion', S.read_after_completion(), witnesses=W),
        mk('C08', 'spawned_late_child', S.spawned_late_child(), witnesses=W),
        mk('C08', 'read_after_completion/par', S.read_after_completion(parallel=True), witnesses=W),
        mk('C08', 'fw/chain2', S.forward_chain(2, topo='chain'), witnesses=W),
        mk('C08', 'fw/chain2/poll', S.forward_chain(2, topo='chain', poll=True), witnesses=W),
        mk('C08', 'fw/chain3', S.forward_chain(3, topo='chain'), witnesses=W),
        mk('C08', 'fw/late_await/no_target_handlers', S.fw_late_await(target_handlers=False), witnesses=W),
    ]
    if tier == 'thorough':
        out += [
            mk('C08', 'fw/cycle3', S.forward_chain(3, topo='cycle'), witnesses=W, max_paths=6000),
            mk('C08', 'fw/diamond', S.forward_chain(4, topo='diamond'), witnesses=W, max_paths=6000),
            mk('C08', 'fw/chain3/CBA', S.forward_chain(3, topo='chain', order=['C', 'B', 'A']), witnesses=W, max_paths=6000),
            mk('C08', 'child/await/k1', S.child('await', k=1), witnesses=W, max_paths=6000),
            mk('C08', 'x2/other_running', S.two_bus_await('other_running', ('A', 'B')), witnesses=W, max_paths=6000),
        ]
    out += matrix_jobs('C08', 'm1', tier)
    out += matrix_jobs('C08', 'm2', tier)
    out += matrix_jobs('C08', 'm3', tier)
    out += matrix_jobs('C08', 'm4', tier)
    return flat(out)
