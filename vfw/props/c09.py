"""C09 — parent/child lineage and handler context are attributed correctly."""
from .. import scenlib as S
from ._common import flat, matrix_jobs, mk, t_tree

META = dict(
    explanation='Who dispatched what, inside which handler invocation, is recorded by the harness; after the run event_parent_id and '
                'the per-result event_children are compared with those records: parent = dispatching handler\'s event (None from '
                'main / external actors, explicit ids kept), the event appears exactly once among the children of that handler\'s '
                'result and nowhere else, never its own parent/child, nothing leaks to dispatches made after a handler returned, '
                'and event.event_bus read inside a handler is the bus running it. Parallel handlers, two buses, nested awaits, '
                'forwarding of roots and children, with symbolic handler durations.',
    assumptions=[],
    outside=['> 3 buses'],
)
from .c14 import t_flood
from ..runner import Job
TEMPLATES = {'tree': t_tree, 's1.flood': t_flood}  # + s1.bridge (below)


def explicit():
    cfg = S.child('await', k=0, actor=False)
    pid = '11111111-2222-7333-8444-555555555555'
    cfg['handlers'][0][3] = [['sleep', 'd1'], ['disp_explicit', 'A', 'C', 'C1', pid], ['await', 'C1'], ['ret', 'p']]
    cfg['explicit_parent'] = {'C1': pid}
    return cfg


def fw_child():
    """a child dispatched inside a handler of A is forwarded A->B; the forwarding root too."""
    cfg = S.forward_chain(2, topo='chain')
    cfg['handlers'].append(['A', 'P', 'hDisp', [['disp', 'A', 'L', 'Lc'], ['ret', 'd']]])
    return cfg


def t_bridge(ctx):
    """A handler ships the event it is handling to another bus as a *re-validated copy* (same event_id, different Python object:
    JSON round trip, model_validate, model_copy — what a bridge between processes does).  The copy is still that event: it must
    keep its parent (none for a root), never become its own parent or child, and the original's lineage must not change."""
    import asyncio
    from ..base import Exact
    from ..events import C, P
    how = ctx.pick('how', ('json', 'validate', 'model_copy', 'same_object'))
    which = ctx.pick('which', ('root', 'child', 'both'))
    d = ctx.real('d', 0, Exact('1/5'))
    ctx.new_loop(horizon=5)
    a, b = ctx.bus('A'), ctx.bus('B')
    got = []          # (original, copy) pairs
    seen_on_b = []

    def ship(ev):
        if how == 'json':
            cp = type(ev).model_validate_json(ev.model_dump_json())
        elif how == 'validate':
            cp = type(ev).model_validate(ev.model_dump())
        elif how == 'model_copy':
            cp = ev.model_copy()
        else:
            cp = ev
        got.append((ev, cp, ev.event_parent_id))
        b.dispatch(cp)

    async def hP(h, ev):
        await h.sleep(d)
        c = h.dispatch(a, ctx.ev(C, 'C1', event_timeout=30.0))
        if which in ('root', 'both'):
            ship(ev)
        await h.wait(c)
        return 'p'

    async def hC(h, ev):
        if which in ('child', 'both'):
            ship(ev)
        return 'c'
    ctx.on(a, P, 'hP', hP)
    ctx.on(a, C, 'hC', hC)

    def on_b(ev):
        seen_on_b.append(ev)
        return 'b'
    on_b.__name__ = 'on_b'
    b.on('*', on_b)
    st = {}

    async def main():
        m = ctx.main
        p = m.dispatch(a, ctx.ev(P, 'P1', event_timeout=30.0))
        st['p'] = p
        await m.wait(p)
        await a.wait_until_idle()
        await b.wait_until_idle()
        await asyncio.sleep(Exact('1/10'))
        ctx.rec('MAINEND')
    fin = ctx.run(main())
    ctx.check('C09.terminates', bool(fin))
    if not fin:
        return
    p = st['p']
    c = ctx.events['C1']
    ctx.check('C09.parent', p.event_parent_id is None, ev='P1', got=p.event_parent_id, why='root got a parent')
    ctx.check('C09.parent', c.event_parent_id == p.event_id, ev='C1')
    ctx.check('C09.bridged_arrives', len(seen_on_b) == len(got), sent=len(got), seen=len(seen_on_b))
    for (orig, cp, parent_before) in got:
        lab = ctx.label(orig)
        ctx.witness('bridged ' + ('copy' if cp is not orig else 'object'))
        for x in (orig, cp):
            ctx.check('C09.not_self', x.event_parent_id != x.event_id, ev=lab, copy=x is cp, why='event is its own parent')
            ctx.check('C09.parent', x.event_parent_id == parent_before, ev=lab, copy=x is cp, before=parent_before, got=x.event_parent_id,
                      why='bridging changed the parent')
        for holder in (orig, cp):
            for r in holder.event_results.values():
                ctx.check('C09.not_self', not any(k.event_id == orig.event_id for k in r.event_children), ev=lab, handler=r.handler_name,
                          why='event listed among its own children')
    # the child is listed exactly once, under hP of the original root
    n = sum(1 for r in p.event_results.values() for k in r.event_children if k.event_id == c.event_id)
    ctx.check('C09.child_once', n == 1, ev='C1', n=n)


def jobs(tier):
    W = ('child dispatched',)
    out = [
        mk('C09', 'child/await/k1', S.child('await', k=1), witnesses=W),
        mk('C09', 'child/ff', S.child('ff', k=0), witnesses=W),
        mk('C09', 'explicit', explicit()),
        mk('C09', 'par/AB', S.parallel_handlers(('A', 'B')), witnesses=W),
        mk('C09', 'x2/other_fresh', S.two_bus_await('other_fresh', ('A', 'B'), yield_first=False), witnesses=W),
        mk('C09', 'fw/chain2', S.forward_chain(2, topo='chain')),
        mk('C09', 'fw/child', fw_child(), witnesses=W),
        mk('C09', 'fw/late', S.forward_chain(2, topo='chain', late=True)),
        mk('C09', 'fw/late_await', S.fw_late_await()),
        mk('C09', 'sequential_awaited_children_with_errors', S.sequential_awaited_children_with_errors(), witnesses=W),
        mk('C09', 'three_same_names_read_bus', S.three_same_names_read_bus(), witnesses=W),
    ]
    if tier == 'thorough':
        out += [
            mk('C09', 'par/BA', S.parallel_handlers(('B', 'A')), witnesses=W, max_paths=6000),
            mk('C09', 'child/depth3', S.child('await', k=1, depth=3), witnesses=W, max_paths=6000),
            mk('C09', 'fw/chain3', S.forward_chain(3, topo='chain', second_event=True), max_paths=6000),
            mk('C09', 'fw/chain3/CBA', S.forward_chain(3, topo='chain', order=['C', 'B', 'A']), max_paths=6000),
            mk('C09', 'fw/cycle3', S.forward_chain(3, topo='cycle'), max_paths=6000),
            mk('C09', 'samefn', S.samefn(('A', 'B')), witnesses=W, max_paths=6000),
            mk('C09', 'x2/other_running', S.two_bus_await('other_running', ('B', 'A')), witnesses=W, max_paths=6000),
        ]
    out.append(Job('C09', 's1.flood', t_flood, dict(n_range=[50, 53], retry=True), witnesses=('retry accepted',)))
    out.append(Job('C09', 's1.bridge', t_bridge, {}, witnesses=('bridged copy', 'bridged object')))
    out += matrix_jobs('C09', 'm1', tier)
    out += matrix_jobs('C09', 'm3', tier)
    out += matrix_jobs('C09', 'm4', tier)
    return flat(out)


TEMPLATES['s1.bridge'] = t_bridge
