"""C09 — parent/child lineage and handler context are attributed correctly."""
from .. import scenlib as S
from ._common import flat, matrix_jobs, mk, t_tree

META = dict(
    explanation='Who dispatched what, inside which handler invocation, is recorded by the harness; after the run event_parent_id and '
                'the per-result event_children are compared with those records: parent = dispatching handler\'s event (None from '
                'main / external actors, explicit ids kept), the event appears exactly once among the children of that handler\'s '
                'result and nowhere else, never its own parent/child, nothing leaks to dispatches made after a handler returned, '
                'and event.event_bus read inside a handler is the bus running it. Parallel handlers, two buses, nested awaits, '
                'forwarding of roots and children, with symbolic handler durations.',
    assumptions=[],
    outside=['> 3 buses'],
)
from .c14 import t_flood
from ..runner import Job
TEMPLATES = {'tree': t_tree, 's1.flood': t_flood}


def explicit():
    cfg = S.child('await', k=0, actor=False)
    pid = '11111111-2222-7333-8444-555555555555'
    cfg['handlers'][0][3] = [['sleep', 'd1'], ['disp_explicit', 'A', 'C', 'C1', pid], ['await', 'C1'], ['ret', 'p']]
    cfg['explicit_parent'] = {'C1': pid}
    return cfg


def fw_child():
    """a child dispatched inside a handler of A is forwarded A->B; the forwarding root too."""
    cfg = S.forward_chain(2, topo='chain')
    cfg['handlers'].append(['A', 'P', 'hDisp', [['disp', 'A', 'L', 'Lc'], ['ret', 'd']]])
    return cfg


def jobs(tier):
    W = ('child dispatched',)
    out = [
        mk('C09', 'child/await/k1', S.child('await', k=1), witnesses=W),
        mk('C09', 'child/ff', S.child('ff', k=0), witnesses=W),
        mk('C09', 'explicit', explicit()),
        mk('C09', 'par/AB', S.parallel_handlers(('A', 'B')), witnesses=W),
        mk('C09', 'x2/other_fresh', S.two_bus_await('other_fresh', ('A', 'B'), yield_first=False), witnesses=W),
        mk('C09', 'fw/chain2', S.forward_chain(2, topo='chain')),
        mk('C09', 'fw/child', fw_child(), witnesses=W),
        mk('C09', 'fw/late', S.forward_chain(2, topo='chain', late=True)),
        mk('C09', 'fw/late_await', S.fw_late_await()),
    ]
    if tier == 'thorough':
        out += [
            mk('C09', 'par/BA', S.parallel_handlers(('B', 'A')), witnesses=W, max_paths=6000),
            mk('C09', 'child/depth3', S.child('await', k=1, depth=3), witnesses=W, max_paths=6000),
            mk('C09', 'fw/chain3', S.forward_chain(3, topo='chain', second_event=True), max_paths=6000),
            mk('C09', 'fw/chain3/CBA', S.forward_chain(3, topo='chain', order=['C', 'B', 'A']), max_paths=6000),
            mk('C09', 'fw/cycle3', S.forward_chain(3, topo='cycle'), max_paths=6000),
            mk('C09', 'samefn', S.samefn(('A', 'B')), witnesses=W, max_paths=6000),
            mk('C09', 'x2/other_running', S.two_bus_await('other_running', ('B', 'A')), witnesses=W, max_paths=6000),
        ]
    out.append(Job('C09', 's1.flood', t_flood, dict(n_range=[50, 53], retry=True), witnesses=('retry accepted',)))
    out += matrix_jobs('C09', 'm1', tier)
    out += matrix_jobs('C09', 'm3', tier)
    return flat(out)
