"""C10 — handler time-outs are enforced and contained."""
from __future__ import annotations

from .. import env
from ..base import Exact, is_sym, zand, zimplies, znot, zor
from ..events import C, G, L, P
from ..oracles import Trace
from ..runner import Job
from ..scenlib import t_tree
from ._common import matrix_jobs

META = dict(
    explanation='Real EventBus/BaseEvent code executed on a virtual-time loop with the handler durations d1..d4 as z3 reals '
                'ranging over [0, 2T+0.1] around a concrete event time-out T: the time-out instant is thereby placed at every '
                'distinct point of the handler program (before dispatching the child, while awaiting it inline, while a '
                'grandchild runs, after the await, never). Per region the clauses of C10 are evaluated on the monitor trace; '
                'the cancellation instant is an SMT obligation (t_cancel == t_enter + T).',
    assumptions=['event_timeout is concrete per job (pydantic float field); durations vary around it'],
    outside=['more than 3 nesting levels', 'time-outs on several buses at once', 'parallel_handlers buses (see C06/C09)'],
)


def t_timeout(ctx):
    """Parent handler: sleep d1; dispatch child; await child; sleep d3.  Child handler: sleep d2
    (depth 3: child dispatches+awaits grandchild which sleeps d4).  A sibling handler on the parent event,
    a later unrelated event L."""
    T = Exact(ctx.cfg['T'])
    depth = ctx.cfg.get('depth', 2)
    hi = 2 * T + Exact('1/10')
    d1 = ctx.real('d1', 0, hi)
    d2 = ctx.real('d2', 0, hi)
    d3 = ctx.real('d3', 0, hi)
    d4 = ctx.real('d4', 0, hi) if depth >= 3 else None
    child_mode = ctx.cfg.get('child', 'await')  # await | ff (fire and forget) | none
    tie = ctx.cfg.get('tie')
    if tie:
        # the handler's work ends at the very instant its time-out does (which part of the work that is, is chosen below), and one
        # timer of the run is noticed up to 4 loop iterations late: every order of "the handler finishes" and "the time-out fires"
        late_idx = int(ctx.int('late_idx', 0, ctx.cfg.get('max_idx', 12)))
        late_k = int(ctx.int('late_k', 0, 4))
        if tie == 'parent':
            d3 = T - d1 if child_mode == 'none' else T - d1 - d2     # parent ends exactly at T (child, if any, done before)
        else:
            d2 = T - d1                                               # the awaited child ends exactly when the parent's time-out fires
    ctx.new_loop(horizon=4 * hi + 2)
    if tie and late_k > 0:
        ctx.loop.late_timer = (late_idx, late_k)
    bus = ctx.bus('A')

    async def hP(h, ev):
        await h.sleep(d1)
        if child_mode != 'none':
            c = h.dispatch(bus, ctx.ev(C, 'C1'))
            if child_mode == 'await':
                await h.wait(c)
        await h.sleep(d3)
        return 'p'

    async def hC(h, ev):
        if depth >= 3:
            g = h.dispatch(bus, ctx.ev(G, 'G1'))
            await h.sleep(d2)
            await h.wait(g)
        else:
            await h.sleep(d2)
        return 'c'

    async def hG(h, ev):
        await h.sleep(d4)
        return 'g'

    ctx.on(bus, P, 'hP', hP)
    if ctx.cfg.get('sibling', True):
        ctx.on(bus, P, 'hP2', ret='p2')
    ctx.on(bus, C, 'hC', hC)
    ctx.on(bus, G, 'hG', hG)
    ctx.on(bus, L, 'hL', ret='l')

    st = {}

    async def main():
        m = ctx.main
        kw = {}
        if ctx.cfg.get('orphan_parent'):
            # the event names a parent that is in no bus's history (dispatched by another process, replayed from a log, evicted)
            kw['event_parent_id'] = '11111111-2222-7333-8444-555555555555'
        p = m.dispatch(bus, ctx.ev(P, 'P1', event_timeout=float(T), **kw))
        l = m.dispatch(bus, ctx.ev(L, 'L1'))
        ctx.rec('AB', by='main', ev='idle:A')
        await bus.wait_until_idle()
        ctx.rec('AE', by='main', ev='idle:A', outcome='return')
        st['idle'] = True

    ctx.run(main())
    tr = Trace(ctx.records)
    evs = ctx.events
    # ---------------- clauses
    e = tr.entries('A', 'P1', 'hP')
    if T == 0 and not e:
        # a zero time-out gives an async handler no time at all: it is cancelled before its first statement
        res = [r for r in ctx.snap(evs['P1'])['results'] if r[0] == 'hP']
        ctx.check('C10.timeout_error', len(res) == 1 and res[0][2] == 'error' and res[0][4] == 'TimeoutError', got=res)
        ctx.witness('timeout fired')
    else:
        ctx.check('C10.entered_once', len(e) == 1)
    if len(e) == 1:
        h = e[0].h
        x = tr.exit_of(h)
        if x is None:
            ctx.check('C10.cancelled_at_deadline', False, why='handler never exited')
        elif x.outcome == 'cancelled':
            ctx.witness('timeout fired')
            ctx.check('C10.cancelled_at_deadline', x.t == e[0].t + T, why='cancellation instant != enter + T')
            later = [r for r in tr.recs if r.seq > x.seq and (r.f.get('h') == h or r.f.get('by') == h or r.f.get('caller') == h)]
            ctx.check('C10.stops_executing', not later)
            res = [r for r in ctx.snap(evs['P1'])['results'] if r[0] == 'hP']
            ctx.check('C10.timeout_error', len(res) == 1 and res[0][2] == 'error' and res[0][4] == 'TimeoutError', got=res)
            if any(r.by == h and r.outcome == 'cancelled' for r in tr.AE):
                ctx.witness('timeout while awaiting child')
            elif any(r.kind == 'D' and r.caller == h for r in tr.recs):
                ctx.witness('timeout after child')
            else:
                ctx.witness('timeout before dispatch')
        else:
            ctx.witness('no timeout')
            # ran to completion: then it must not have run longer than T
            ctx.check('C10.cancelled_at_deadline', x.t - e[0].t <= T, why='handler outlived its time-out without being cancelled')
            res = [r for r in ctx.snap(evs['P1'])['results'] if r[0] == 'hP']
            at_deadline = (x.t - e[0].t == T)
            # a handler that returns at the very instant its time-out expires may be recorded either way (asyncio.wait_for decides)
            ok_res = len(res) == 1 and (res[0][2] == 'completed' or (res[0][2] == 'error' and res[0][4] == 'TimeoutError' and bool(at_deadline)))
            ctx.check('C10.result_recorded', ok_res, got=res)
    if ctx.cfg.get('sibling', True):
        s = tr.entries('A', 'P1', 'hP2')
        sres = [r for r in ctx.snap(evs['P1'])['results'] if r[0] == 'hP2']
        if T == 0:
            # with a zero time-out the (async) sibling is given no time either: it must end as a TimeoutError error, not stay pending
            ctx.check('C10.siblings_run', len(sres) == 1 and sres[0][2] in ('completed', 'error'), entries=len(s), got=sres)
        else:
            ctx.check('C10.siblings_run', len(s) == 1 and len(sres) == 1 and sres[0][2] == 'completed', entries=len(s), got=sres)
    sp = ctx.snap(evs['P1'])
    ctx.check('C10.event_completes', sp['status'] == 'completed' and sp['signal'] is True, got=(sp['status'], sp['signal']))
    # children of the timed-out handler (by the harness's own dispatch records)
    for lab in ('C1', 'G1'):
        if lab in evs and lab in tr.firstD:
            sc = ctx.snap(evs[lab])
            nonterminal = [r for r in sc['results'] if r[2] in ('pending', 'started')]
            ctx.check('C10.children_cancelled', not nonterminal, ev=lab, got=nonterminal)
            accepted = any(r.ev == lab for r in tr.DR)
            if accepted:
                ctx.check('C10.touched_events_complete', sc['status'] == 'completed' and sc['signal'] is True,
                          ev=lab, got=(sc['status'], sc['signal']))
    le = tr.entries('A', 'L1', 'hL')
    sl = ctx.snap(evs['L1'])
    ctx.check('C10.later_events_run', len(le) == 1 and sl['status'] == 'completed' and sl['signal'] is True, entries=len(le))
    ctx.check('C10.idle', bool(st.get('idle')), why='wait_until_idle() still blocked at the virtual horizon')
    # handlers never run twice
    for r in tr.E:
        ctx.check('C10.no_double_run', r.n == 1, h=r.h)


def t_timeout_retry(ctx):
    """The handler is wrapped in @retry with a one-slot semaphore (README: decorated handlers). The first event's time-out T fires at
    an arbitrary point of the wrapper (slot wait, overload probe, body); anything the wrapper hands to a worker thread takes an
    arbitrary time x_d. Containment: the later event, whose handler needs the same slot, runs at once and completes normally."""
    import asyncio
    helpers = env.helpers
    T = Exact(ctx.cfg['T'])
    d1 = ctx.real('d1', 0, 2 * T + Exact('1/10'))
    x_d = ctx.real('x_d', 0, 2 * T + Exact('1/10'))
    gap = Exact('1/10')
    ctx.new_loop(horizon=20)
    ctx.loop.executor_delay = x_d
    bus = ctx.bus('A')

    @helpers.retry(wait=0, retries=0, timeout=5, semaphore_limit=1, semaphore_name='C10S', semaphore_scope='global', semaphore_lax=False,
                   semaphore_timeout=1.0)
    async def body(h, ev):
        ctx.rec('BODY', ev=ctx.label(ev), t_enter=ctx.now())
        await h.sleep(d1)
        return 'p'

    async def hP(h, ev):
        return await body(h, ev)
    ctx.on(bus, P, 'hP', hP)
    st = {}

    async def main():
        m = ctx.main
        p1 = m.dispatch(bus, ctx.ev(P, 'P1', event_timeout=float(T)))
        await m.wait(p1)
        await asyncio.sleep(gap)
        st['t2'] = ctx.now()
        p2 = m.dispatch(bus, ctx.ev(P, 'P2', event_timeout=10.0))
        await m.wait(p2)
        await bus.wait_until_idle()
        st['idle'] = True
    ctx.run(main())
    tr = Trace(ctx.records)
    evs = ctx.events
    s1 = ctx.snap(evs['P1'])
    ctx.check('C10.event_completes', s1['status'] == 'completed' and s1['signal'] is True, ev='P1', got=(s1['status'], s1['signal']))
    r1 = [r for r in s1['results'] if r[0] == 'hP']
    e1 = tr.entries('A', 'P1', 'hP')
    if len(e1) == 1 and tr.exit_of(e1[0].h) is not None and tr.exit_of(e1[0].h).outcome == 'cancelled':
        ctx.witness('timeout fired')
        ctx.check('C10.cancelled_at_deadline', tr.exit_of(e1[0].h).t == e1[0].t + T)
        ctx.check('C10.timeout_error', len(r1) == 1 and r1[0][2] == 'error' and r1[0][4] == 'TimeoutError', got=r1)
    else:
        ctx.witness('no timeout')
    if 'P2' in evs:
        s2 = ctx.snap(evs['P2'])
        r2 = [r for r in s2['results'] if r[0] == 'hP']
        b2 = [r for r in tr.recs if r.kind == 'BODY' and r.ev == 'P2']
        ctx.check('C10.later_events_run', len(b2) == 1 and len(r2) == 1 and r2[0][2] == 'completed' and s2['status'] == 'completed' and s2['signal'] is True,
                  ev='P2', got=r2, why='the later event did not run normally after the time-out of the first')
        if len(b2) == 1:
            # nothing of the first event is left behind: the slot is free, so the later handler's body starts without waiting for it
            # (only the wrapper's own thread hop, if it has one, may delay it)
            ctx.check('C10.later_events_run', b2[0].t_enter <= st['t2'] + x_d, ev='P2', why='the later handler had to wait for a slot the timed-out handler never gave back')
    ctx.check('C10.idle', bool(st.get('idle')), why='main still blocked at the virtual horizon')


TEMPLATES = {'s1.timeout': t_timeout, 's1.timeout_retry': t_timeout_retry, 'tree': t_tree}


def jobs(tier):
    out = []
    W = ('timeout fired', 'no timeout')
    if tier == 'quick':
        out.append(Job('C10', 's1.timeout', t_timeout, dict(T='1/4', depth=2, child='await'), witnesses=W + ('timeout while awaiting child', 'timeout before dispatch', 'timeout after child')))
        out.append(Job('C10', 's1.timeout', t_timeout, dict(T='1/4', depth=2, child='ff'), witnesses=W))
        out.append(Job('C10', 's1.timeout', t_timeout, dict(T='1/4', depth=2, child='none', sibling=False), witnesses=W))
        out.append(Job('C10', 's1.timeout', t_timeout, dict(T='0', depth=2, child='await'), witnesses=('timeout fired',)))
        out.append(Job('C10', 's1.timeout', t_timeout, dict(T='1/4', depth=2, child='await', orphan_parent=True), witnesses=W))
    else:
        out.append(Job('C10', 's1.timeout', t_timeout, dict(T='1/4', depth=2, child='await', orphan_parent=True), witnesses=W))
        out.append(Job('C10', 's1.timeout', t_timeout, dict(T='0', depth=2, child='await'), witnesses=('timeout fired',)))
        out.append(Job('C10', 's1.timeout', t_timeout, dict(T='0', depth=2, child='none', sibling=False), witnesses=('timeout fired',)))
        for T in ('1/4', '3/20', '1'):
            for child in ('await', 'ff', 'none'):
                out.append(Job('C10', 's1.timeout', t_timeout, dict(T=T, depth=2, child=child), witnesses=W))
        out.append(Job('C10', 's1.timeout', t_timeout, dict(T='1/4', depth=3, child='await'), witnesses=W, max_paths=6000))
        out.append(Job('C10', 's1.timeout', t_timeout, dict(T='1/4', depth=3, child='ff'), witnesses=W, max_paths=6000))
    out.append(Job('C10', 's1.timeout_retry', t_timeout_retry, dict(T='1/4'), witnesses=W))
    # ties: the work ends exactly when the time-out does, one timer noticed up to 4 iterations late
    out.append(Job('C10', 's1.timeout', t_timeout, dict(T='1/4', depth=2, child='none', sibling=True, tie='parent', max_idx=30), witnesses=W))
    out.append(Job('C10', 's1.timeout', t_timeout, dict(T='1/4', depth=2, child='await', tie='parent', max_idx=30), witnesses=('timeout fired',)))
    out.append(Job('C10', 's1.timeout', t_timeout, dict(T='1/4', depth=2, child='await', tie='child', max_idx=30), witnesses=('timeout fired',)))
    out += matrix_jobs('C10', 'm2', tier)
    out += matrix_jobs('C10', 'm3', tier)
    out += matrix_jobs('C10', 'm4', tier)
    from ._common import mk
    from .. import scenlib as S
    out += mk('C10', 'timeout_during_wal', S.timeout_during_wal(), witnesses=('timeout fired', 'no timeout'))
    out += mk('C10', 'timeout_bystander', S.timeout_bystander(), witnesses=('timeout fired', 'no timeout'))
    out += mk('C10', 'timeout_bystander/two_handlers', S.timeout_bystander(True), witnesses=('timeout fired', 'no timeout'))
    return out
