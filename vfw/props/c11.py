"""C11 — handler errors are isolated."""
from .. import scenlib as S
from ._common import flat, matrix_jobs, mk, t_tree

META = dict(
    explanation='A raising handler (sync / async, before or after a suspension point of symbolic length) or a handler returning an '
                'exception object is placed as parent, awaited child, fire-and-forget child and on a forwarded bus, with other '
                'events in flight (external dispatch at a symbolic instant). Per region: that handler\'s result is an error '
                'holding the very object raised; every other handler ran once and its value is recorded; every event completes; '
                'await event does not raise; event_result(raise_if_any=True) raises that object and raise_if_any=False does not.',
    assumptions=['exception kinds: ValueError, a custom Exception subclass, KeyError, asyncio.TimeoutError raised by user code'],
    outside=['BaseExceptions other than CancelledError; KeyboardInterrupt'],
)
TEMPLATES = {'tree': t_tree}


def fw_error():
    cfg = S.forward_chain(2, topo='chain', slow=True)
    cfg['handlers'].append(['B', 'P', 'hBoomB', [['sleep', 'd1'], ['raise', 'ValueError']]])
    cfg['main'] = [['root', 'A', 'P', 'P1'], ['idle', 'A'], ['idle', 'B'], ['await', 'P1'],
                   ['accessor', 'P1', {'raise_if_any': True, 'raise_if_none': False}],
                   ['accessor', 'P1', {'raise_if_any': False, 'raise_if_none': False}],
                   ['accessor', 'P1', {'raise_if_any': False, 'raise_if_none': True}], ['obs_all', 'end']]
    return cfg


def jobs(tier):
    W = ('handler error',)
    out = []
    for kind in ('ValueError', 'Custom', 'TimeoutError', 'InnerTimeout'):
        out.append(mk('C11', f'errors/parent/{kind}', S.errors(kind, 'parent'), witnesses=W))
    out.append(mk('C11', 'errors/awaited_child/InnerTimeout', S.errors('InnerTimeout', 'awaited_child'), witnesses=W))
    out += [
        mk('C11', 'errors/parent/sync', S.errors('ValueError', 'parent', sync=True), witnesses=W),
        mk('C11', 'errors/parent/ret_exc', S.errors('KeyError', 'parent', ret_exc=True), witnesses=W),
        mk('C11', 'errors/parent/ret_exc/typed', S.errors('KeyError', 'parent', ret_exc=True, root_cls='TI'), witnesses=W),
        mk('C11', 'errors/parent/raise/typed', S.errors('ValueError', 'parent', root_cls='TI'), witnesses=W),
        mk('C11', 'errors/awaited_child', S.errors('ValueError', 'awaited_child'), witnesses=W),
        mk('C11', 'errors/ff_child', S.errors('Custom', 'ff_child'), witnesses=W),
        mk('C11', 'errors/forwarded', fw_error(), witnesses=W),
        mk('C11', 'errors/parent/only_failing', S.errors('Custom', 'parent', only_failing=True), witnesses=W),
        mk('C11', 'sequential_awaited_children_with_errors', S.sequential_awaited_children_with_errors(), witnesses=W),
        mk('C11', 'errors/parent/TimeoutError/ret_exc', S.errors('TimeoutError', 'parent', ret_exc=True), witnesses=W),
        mk('C11', 'errors/parent/TimeoutError/sync', S.errors('TimeoutError', 'parent', sync=True), witnesses=W),
        mk('C11', 'errors/awaited_child/only_failing/ret_exc', S.errors('KeyError', 'awaited_child', ret_exc=True, only_failing=True), witnesses=W),
        mk('C11', 'par_parent_serial_child', S.par_parent_serial_child(), witnesses=W),
    ]
    if tier == 'thorough':
        for kind in ('ValueError', 'Custom', 'TimeoutError'):
            for where in ('awaited_child', 'ff_child'):
                for sync in (False, True):
                    out.append(mk('C11', f'errors/{where}/{kind}/sync={sync}', S.errors(kind, where, sync=sync), witnesses=W))
            out.append(mk('C11', f'errors/parent/{kind}/ret_exc', S.errors(kind, 'parent', ret_exc=True), witnesses=W))
    out += matrix_jobs('C11', 'm1', tier)
    out += mk('C11', 'deep4/await', S.deep4('await'))
    out += mk('C11', 'deep4/ff', S.deep4('ff'))
    out += mk('C11', 'deep4/ff/wild_raise', S.deep4('ff', wild_raise=True))
    out += matrix_jobs('C11', 'm3', tier)
    out += matrix_jobs('C11', 'm4', tier)
    return flat(out)
