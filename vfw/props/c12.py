"""C12 — handler results are type-checked and accessor views are consistent."""
from __future__ import annotations

import asyncio
import typing

from pydantic import BaseModel

from .. import env
from ..base import Exact, is_sym, zand, zimplies, zite, znot, zor
from ..events import C, P
from ..runner import Job

META = dict(
    explanation='Accessors: an event with n API-built results (real event_result_update / EventResult.update) whose kinds are '
                'chosen through the solver, with raise_if_any / raise_if_none / raise_if_conflicts as z3 booleans and a '
                'symbolic include truth table; the six real accessors are compared per region with a reference written from '
                'the docstrings. Typing: the real EventResult.update control flow over a catalogue of declared-type shapes '
                'with pydantic\'s validator replaced by a nondeterministic stub (accept/reject is a z3 boolean).',
    assumptions=['pydantic-core validation is a nondeterministic stub in k.update: returns a token or raises (fresh z3 boolean)',
                 'handler names are unique per event (bubus warns on duplicates)'],
    outside=['whether pydantic-core\'s coercion agrees with "conforms to the declared type" for concrete values (compiled Rust)',
             'more than 3 results per event (quick: 2)'],
)


# =========================================================================== typing kernel
class M(BaseModel):
    x: int = 0


class TD(typing.TypedDict):
    a: int


SHAPES = {
    'int': int,
    'str': str,
    'list[int]': list[int],
    'dict[str,int]': dict[str, int],
    'int|None': int | None,
    'Optional[str]': typing.Optional[str],
    'Union[int,str]': typing.Union[int, str],
    'Literal': typing.Literal['a', 'b'],
    'Annotated[int]': typing.Annotated[int, 'meta'],
    'BaseModel': M,
    'TypedDict': TD,
}


class _Token:
    def __init__(self, v):
        self.v = v


def t_update(ctx):
    """EventResult.update(result=v) for one declared-type shape; the validator is a nondeterministic stub."""
    shape = ctx.cfg['shape']
    accepts = ctx.flag('validator_accepts')
    vkind = ctx.pick('value_kind', ('plain', 'none', 'exception', 'event'))
    models = env.models
    calls = []

    class StubTA:
        def __init__(self, t):
            self.t = t

        def validate_python(self, v):
            calls.append(('TypeAdapter', self.t))
            if accepts:
                return _Token(v)
            raise ValueError('stub validator: does not conform')

    class StubModel(M):
        @classmethod
        def model_validate(cls, v, **kw):
            calls.append(('model_validate', cls))
            if accepts:
                return _Token(v)
            raise ValueError('stub validator: does not conform')

    T = None if shape == 'none' else (StubModel if shape == 'BaseModel' else SHAPES[shape])
    saved = models.TypeAdapter
    models.TypeAdapter = StubTA
    try:
        r = models.EventResult(event_id='00000000-0000-0000-0000-000000000001', handler_id='1.1', handler_name='h',
                               eventbus_id='1', eventbus_name='B', result_type=T)
        r.update(status='started')
        exc_obj = ValueError('returned by handler')
        ev_obj = C()
        plain = object() if shape == 'none' else 7
        v = {'plain': plain, 'none': None, 'exception': exc_obj, 'event': ev_obj}[vkind]
        raised = None
        try:
            r.update(result=v)
        except BaseException as ex:  # noqa
            raised = ex
    finally:
        models.TypeAdapter = saved
    ctx.rec('K', shape=shape, vkind=vkind, status=r.status, calls=len(calls), raised=type(raised).__name__ if raised else None)
    ctx.check('C12.update_total', raised is None, raised=repr(raised))
    if raised is not None:
        return
    if vkind == 'none':
        ctx.check('C12.none_and_events_exempt', r.status == 'completed' and r.result is None and r.error is None and not calls)
    elif vkind == 'event':
        ctx.check('C12.none_and_events_exempt', r.status == 'completed' and r.result is ev_obj and r.error is None and not calls)
    elif vkind == 'exception':
        ctx.check('C12.returned_exception_is_error', r.status == 'error' and r.result is None and r.error is exc_obj)
    elif shape == 'none':
        ctx.check('C12.untyped_passthrough', r.status == 'completed' and r.result is plain and r.error is None and not calls)
    else:
        ctx.check('C12.validator_consulted', len(calls) == 1, calls=len(calls))
        took_accept = isinstance(r.result, _Token)
        # accepts is symbolic; by now the path has decided it (the stub branched on it) unless the validator was never called
        if calls:
            if bool(accepts):
                ctx.witness('validator accepted')
                ctx.check('C12.typed_ok', r.status == 'completed' and took_accept and r.result.v is v and r.error is None,
                          status=r.status, err=repr(r.error))
            else:
                ctx.witness('validator rejected')
                ctx.check('C12.typed_bad', r.status == 'error' and r.result is None and isinstance(r.error, Exception),
                          status=r.status, err=repr(r.error))


REAL_CASES = [  # (shape, value, conforms?)  — concrete differential against the real pydantic validator
    ('int', 7, True), ('int', 'abc', False), ('str', 'x', True), ('list[int]', [1, 2], True), ('list[int]', ['a'], False),
    ('dict[str,int]', {'a': 1}, True), ('dict[str,int]', {'a': 'zz'}, False),
    ('int|None', 7, True), ('int|None', 'abc', False), ('Optional[str]', 'x', True), ('Optional[str]', [1], False),
    ('Union[int,str]', 'x', True), ('Union[int,str]', [1], False), ('Literal', 'a', True), ('Literal', 'c', False),
    ('Annotated[int]', 5, True), ('Annotated[int]', 'q', False), ('BaseModel', {'x': 3}, True), ('BaseModel', {'x': 'bad'}, False),
    ('TypedDict', {'a': 1}, True), ('TypedDict', {'a': 'no'}, False),
    # falsy return values are values like any other: checked when they do not conform, kept when they do
    ('int', '', False), ('str', 0, False), ('str', False, False), ('dict[str,int]', [], False), ('int|None', '', False),
    ('BaseModel', [], False), ('int', 0, True), ('str', '', True), ('list[int]', [], True), ('dict[str,int]', {}, True),
    # values that pydantic coerces into the declared type and that compare equal to their coerced form: what is stored must be the
    # conforming value, not the raw one (4th element: repr of the expected stored value)
    ('int', 9.0, True, '9'), ('list[int]', [1.0, 2.0], True, '[1, 2]'), ('dict[str,int]', {'a': 1.0}, True, "{'a': 1}"),
    ('int|None', 3.0, True, '3'), ('Annotated[int]', 5.0, True, '5'),
]


def t_update_real(ctx):
    """Concrete cases through the real pydantic validator (no stub): checks the stub's contract and the update() glue."""
    i = ctx.cfg['case']
    shape, value, conforms, *exact = REAL_CASES[i]
    models = env.models
    r = models.EventResult(event_id='00000000-0000-0000-0000-000000000001', handler_id='1.1', handler_name='h',
                           eventbus_id='1', eventbus_name='B', result_type=SHAPES[shape])
    r.update(status='started')
    raised = None
    try:
        r.update(result=value)
    except BaseException as ex:  # noqa
        raised = ex
    ctx.rec('K', shape=shape, conforms=conforms, status=r.status, raised=type(raised).__name__ if raised else None)
    ctx.check('C12.update_total', raised is None, raised=repr(raised), shape=shape)
    if raised is None:
        if conforms:
            ctx.check('C12.typed_ok', r.status == 'completed' and r.error is None and r.result is not None, shape=shape, value=repr(value),
                      status=r.status, err=repr(r.error)[:200])
            if exact:
                ctx.check('C12.typed_ok', repr(r.result) == exact[0], shape=shape, value=repr(value), stored=repr(r.result), expected=exact[0],
                          why='the completed result does not hold the value as validated against the declared type')
        else:
            ctx.check('C12.typed_bad', r.status == 'error' and r.result is None, shape=shape, value=repr(value), status=r.status)


def t_update_twins(ctx):
    """Two different result types that print identically (two runtime-created models both called 'Item', as plugins / factories /
    notebooks produce): each result is validated against its own event's declared type, whichever was used first."""
    from pydantic import create_model
    models = env.models
    ItemA = create_model('Item', sku=(str, ...))
    ItemB = create_model('Item', sku=(str, ...), qty=(int, ...))
    first = ctx.pick('first', ('A', 'B'))
    wrap = ctx.pick('wrap', ('list', 'dict', 'optional'))
    mk = {'list': lambda T: list[T], 'dict': lambda T: dict[str, T], 'optional': lambda T: typing.Optional[T]}[wrap]
    box = {'list': lambda v: [v], 'dict': lambda v: {'k': v}, 'optional': lambda v: v}[wrap]
    unbox = {'list': lambda v: v[0], 'dict': lambda v: v['k'], 'optional': lambda v: v}[wrap]

    def run(T, value):
        r = models.EventResult(event_id='00000000-0000-0000-0000-000000000001', handler_id='1.1', handler_name='h',
                               eventbus_id='1', eventbus_name='B', result_type=mk(T))
        r.update(status='started')
        r.update(result=box(value))
        return r
    order = [('A', ItemA), ('B', ItemB)] if first == 'A' else [('B', ItemB), ('A', ItemA)]
    for tag, T in order:
        good = {'sku': 'a-1'} if tag == 'A' else {'sku': 'a-1', 'qty': 3}
        r = run(T, good)
        ok = r.status == 'completed' and r.error is None and isinstance(unbox(r.result), T)
        ctx.check('C12.typed_ok', ok, which=tag, first=first, wrap=wrap, status=r.status, got=repr(r.result)[:80], err=repr(r.error)[:120])
        if tag == 'B':
            rb = run(T, {'sku': 'b-2'})       # qty missing: does not conform to list[ItemB]
            ctx.check('C12.typed_bad', rb.status == 'error' and rb.result is None, which=tag, first=first, wrap=wrap, status=rb.status, got=repr(rb.result)[:80])
    ctx.rec('K', first=first, wrap=wrap)


def t_result_type(ctx):
    """Resolution of the declared result type per event class: generic parameter, inheritance, explicit field override, explicit
    argument — for every instantiation order of a small class hierarchy (the order is chosen through the solver; classes are
    created afresh on every path because the library caches the resolved type on the class)."""
    import itertools
    from typing import Any

    class RA(env.BaseEvent[int]):
        pass

    class RB(env.BaseEvent):
        pass

    class RC(RA):                       # inherits int
        pass

    class RD(RA):                       # re-declares explicitly
        event_result_type: Any = str

    class RE(env.BaseEvent[list[int]]):
        pass

    class RG(RC):                       # second level below BaseEvent[int], nothing re-declared
        pass

    class RH(RD):                       # second level below an explicit re-declaration
        pass

    class RF(RE):
        event_result_type: Any = dict[str, int]

    classes = [('RA', RA, int), ('RB', RB, None), ('RC', RC, int), ('RD', RD, str), ('RE', RE, list[int]), ('RF', RF, dict[str, int]),
               ('RG', RG, int), ('RH', RH, str)]
    perms = list(itertools.permutations(range(len(classes))))
    if len(perms) > 2000:
        # 8! orders would take half an hour of class creation: a fixed pseudo-random subset of 1500 orders (plus the identity and its
        # reverse); every parent-before-child / child-before-parent combination is covered by the flag mode anyway
        import random
        rng = random.Random(12)
        perms = [perms[0], perms[-1]] + rng.sample(perms[1:-1], 1498)
    pi = int(ctx.int('order', 0, len(perms) - 1)) if ctx.cfg.get('all_orders') else None
    if pi is None:
        # the orders that matter are which of (parent, child) is instantiated first: fork over a 6-bit choice
        first = [bool(ctx.flag(f'late_{n}')) for (n, _, _) in classes]
        order = [i for i in range(len(classes)) if not first[i]] + [i for i in range(len(classes)) if first[i]]
    else:
        order = list(perms[pi])
    got = {}
    for i in order:
        n, cls, exp = classes[i]
        e = cls()
        got[n] = e.event_result_type
    for n, cls, exp in classes:
        e2 = cls()       # second instance: served from the class-level cache
        ctx.check('C12.declared_type_resolved', got[n] == exp and e2.event_result_type == exp, cls=n, got=str(got[n]), second=str(e2.event_result_type), want=str(exp))
        e3 = cls(event_result_type=bytes)
        ctx.check('C12.declared_type_resolved', e3.event_result_type is bytes, cls=n, why='explicit argument must win')

    # the resolved type is the one results are validated against
    def h(ev):
        return None
    e = RD()
    r = e.event_result_update(handler=h, status='started')
    r.update(result='42')
    ctx.check('C12.typed_ok', r.status == 'completed' and r.result == '42' and isinstance(r.result, str), got=repr(r.result), status=r.status)
    e = RC()
    r = e.event_result_update(handler=h, status='started')
    r.update(result='not a number')
    ctx.check('C12.typed_bad', r.status == 'error' and r.result is None, status=r.status)
    ctx.rec('K', order=''.join(str(i) for i in order))


def t_views_after_run(ctx):
    """Three handlers with symbolic durations on a serial / parallel bus return a value each (one returns a dict, one a list when
    the flat accessors are exercised); after completion every accessor must present the results in handler (registration) order,
    repeated calls must agree, and an accessor must not modify the recorded results."""
    par = ctx.cfg['par']
    kind = ctx.cfg['kind']            # 'scalar' | 'dict' | 'list'
    ds = [ctx.real(f'd{i}', 0, Exact('3/10')) for i in range(3)]
    ctx.new_loop(horizon=5)
    bus = ctx.bus('A', parallel_handlers=par)
    vals = {'scalar': ['v0', 'v1', 'v2'], 'dict': [{'a': 0}, {'b': 1}, {'c': 2}], 'list': [[0], [1, 11], [2]]}[kind]
    for i in range(3):
        async def body(h, ev, i=i):
            await h.sleep(ds[i])
            return vals[i]
        ctx.on(bus, P, f'h{i}', body)
    out = {}

    async def main():
        m = ctx.main
        e = m.dispatch(bus, ctx.ev(P, 'P1', event_timeout=30.0))
        await m.wait(e)
        before = [(r.handler_name.rsplit('.', 1)[-1], repr(r.result)) for r in e.event_results.values()]
        out['first'] = await e.event_result()
        out['list'] = await e.event_results_list()
        out['by_name'] = await e.event_results_by_handler_name()
        out['by_id'] = list((await e.event_results_by_handler_id()).values())
        if kind == 'dict':
            out['flat1'] = await e.event_results_flat_dict()
            out['flat2'] = await e.event_results_flat_dict()
        if kind == 'list':
            out['flatl1'] = await e.event_results_flat_list()
            out['flatl2'] = await e.event_results_flat_list()
        out['list2'] = await e.event_results_list()
        after = [(r.handler_name.rsplit('.', 1)[-1], repr(r.result)) for r in e.event_results.values()]
        out['before'], out['after'] = before, after
        await bus.wait_until_idle()

    fin = ctx.run(main())
    ctx.check('C12.views_terminate', bool(fin))
    if not fin:
        return
    ctx.check('C12.view_order', out['first'] == vals[0] and out['list'] == vals and list(out['by_name'].values()) == vals
              and [k.rsplit('.', 1)[-1] for k in out['by_name']] == ['h0', 'h1', 'h2'] and out['by_id'] == vals, got=repr(out['list'])[:120])
    ctx.check('C12.views_pure', out['before'] == out['after'] and out['list2'] == vals, before=str(out['before'])[:150], after=str(out['after'])[:150])
    if kind == 'dict':
        ctx.check('C12.view.event_results_flat_dict', out['flat1'] == {'a': 0, 'b': 1, 'c': 2} == out['flat2'] and list(out['flat1']) == ['a', 'b', 'c'], got=repr(out['flat1']))
    if kind == 'list':
        ctx.check('C12.view.event_results_flat_list', out['flatl1'] == [0, 1, 11, 2] == out['flatl2'], got=repr(out['flatl1']))
    if par:
        ctx.witness('parallel run')


# =========================================================================== accessors
KINDS_FULL = ('none', 'int0', 'int7', 'dictA', 'dictB', 'dictAB', 'dictE', 'list', 'listE', 'event', 'errValue', 'errCancelled', 'retExc')
KINDS_SMALL = ('none', 'int7', 'dictA', 'dictAB', 'list', 'event', 'errValue', 'retExc')
ACCESSORS = ('event_result', 'event_results_list', 'event_results_by_handler_id', 'event_results_by_handler_name',
             'event_results_flat_dict', 'event_results_flat_list')


class _RefRaise(Exception):
    def __init__(self, kind, obj=None):
        self.kind = kind  # 'same' (re-raise obj) | 'ValueError'
        self.obj = obj


def _truthy(r):
    # README/docstring: a "real" result = completed, not None, not an exception, not a forwarded event
    return r['status'] == 'completed' and r['value'] is not None and not isinstance(r['value'], BaseException) and not r['is_event']


def reference(results, accessor, include, raise_if_any, raise_if_none, raise_if_conflicts):
    """40-line reference written from the docstrings: filter -> raise rules -> projection in handler order."""
    def inc(r):
        if accessor == 'event_results_flat_dict':
            return isinstance(r['value'], dict) and include(r)
        if accessor == 'event_results_flat_list':
            return isinstance(r['value'], list) and include(r)
        return include(r)
    errors = [r for r in results if r['error'] is not None]
    if raise_if_any and errors:
        raise _RefRaise('same', errors[0]['error'])
    included = [r for r in results if inc(r)]
    if raise_if_none and not included:
        raise _RefRaise('ValueError')
    if accessor == 'event_result':
        return included[0]['value'] if included else None
    if accessor == 'event_results_list':
        return [r['value'] for r in included]
    if accessor == 'event_results_by_handler_id':
        return {r['hid']: r['value'] for r in included}
    if accessor == 'event_results_by_handler_name':
        return {r['name']: r['value'] for r in included}
    if accessor == 'event_results_flat_dict':
        merged = {}
        for r in included:
            if raise_if_conflicts and (merged.keys() & r['value'].keys()):
                raise _RefRaise('ValueError')
            merged.update(r['value'])
        return merged
    if accessor == 'event_results_flat_list':
        out = []
        for r in included:
            out.extend(r['value'])
        return out
    raise AssertionError(accessor)


def t_accessors(ctx):
    n = ctx.cfg['n']
    accessor = ctx.cfg['accessor']
    kinds = KINDS_FULL if ctx.cfg.get('kinds') == 'full' else KINDS_SMALL
    inc_mode = ctx.cfg.get('include', 'table')
    raise_if_any = ctx.flag('raise_if_any')
    raise_if_none = ctx.flag('raise_if_none')
    raise_if_conflicts = ctx.flag('raise_if_conflicts') if accessor == 'event_results_flat_dict' else None
    ks = [ctx.pick(f'kind{i}', kinds) for i in range(n)]
    table = [ctx.flag(f'include{i}') for i in range(n)] if inc_mode == 'table' else None
    ctx.new_loop(horizon=5)
    out = {}

    async def main():
        bus = env.EventBus(name='B')
        ev = P(event_timeout=1.0)
        _ = ev.event_completed_signal
        ref_results = []
        for i, k in enumerate(ks):
            def mk(i=i):
                def h(e):
                    return None
                h.__name__ = f'h{i}'
                h.__qualname__ = f'h{i}'
                return h
            fn = mk()
            r = ev.event_result_update(handler=fn, eventbus=bus, status='started')
            err = None
            is_event = False
            if k == 'none': val = None
            elif k == 'int0': val = 0
            elif k == 'int7': val = 7 + i
            elif k == 'dictA': val = {'a': i}
            elif k == 'dictB': val = {'b': i}
            elif k == 'dictAB': val = {'a': 10 + i, 'b': 20 + i}
            elif k == 'dictE': val = {}
            elif k == 'list': val = [i, 100 + i]
            elif k == 'listE': val = []
            elif k == 'event':
                val = C()
                is_event = True
            else:
                val = None
            if k == 'errValue':
                err = ValueError(f'boom{i}')
                r.update(error=err)
            elif k == 'errCancelled':
                err = asyncio.CancelledError(f'cancelled{i}')
                r.update(error=err)
            elif k == 'retExc':
                err = KeyError(f'returned{i}')
                r.update(result=err)
            else:
                r.update(result=val)
            ref_results.append(dict(hid=r.handler_id, name=r.handler_name, status=r.status, value=val, error=err, is_event=is_event, idx=i))
        ev.event_mark_complete_if_all_handlers_completed()
        out['complete'] = ev.event_completed_signal.is_set()
        idx_of = {rr['hid']: rr['idx'] for rr in ref_results}
        kw = dict(raise_if_any=raise_if_any, raise_if_none=raise_if_none)
        if accessor == 'event_results_flat_dict':
            kw['raise_if_conflicts'] = raise_if_conflicts
        if inc_mode == 'table':
            kw['include'] = lambda er: table[idx_of[er.handler_id]]
        try:
            out['real'] = ('value', await getattr(ev, accessor)(**kw))
        except BaseException as ex:  # noqa
            out['real'] = ('raise', ex)
        out['ref_results'] = ref_results
        bus._is_running = False

    ctx.run(main())
    ctx.check('C12.setup_complete', bool(out.get('complete')))
    ref_results = out['ref_results']
    # the path has by now decided every flag the real code looked at; the reference may look at more -> it forks too,
    # which is what makes the comparison cover all flag values
    inc = (lambda r: bool(table[r['idx']])) if inc_mode == 'table' else _truthy
    try:
        exp = ('value', reference(ref_results, accessor, inc, bool(raise_if_any), bool(raise_if_none),
                                  bool(raise_if_conflicts) if raise_if_conflicts is not None else True))
    except _RefRaise as rr:
        exp = ('raise', rr)
    real = out['real']
    ctx.rec('K', kinds=ks, real=real[0], exp=exp[0])
    clause = f'C12.view.{accessor}'
    if exp[0] == 'raise':
        rr = exp[1]
        ctx.witness('raise:' + rr.kind)
        if rr.kind == 'same':
            ctx.check(clause, real[0] == 'raise' and real[1] is rr.obj, expected='re-raise the recorded error object', got=repr(real[1])[:200], kinds=ks)
        else:
            ctx.check(clause, real[0] == 'raise' and isinstance(real[1], ValueError), expected='ValueError', got=repr(real[1])[:200], kinds=ks)
    else:
        ctx.witness('value')
        ok = real[0] == 'value' and _same(real[1], exp[1])
        ctx.check(clause, ok, expected=repr(exp[1])[:200], got=repr(real[1])[:200], kinds=ks)


def _same(a, b):
    if type(a) is not type(b):
        return False
    if isinstance(a, dict):
        return list(a.keys()) == list(b.keys()) and all(_same(a[k], b[k]) for k in a)
    if isinstance(a, list):
        return len(a) == len(b) and all(_same(x, y) for x, y in zip(a, b))
    if isinstance(a, env.BaseEvent):
        return a is b
    return a == b


TEMPLATES = {'s1.views_after_run': t_views_after_run, 'k.update_twins': t_update_twins, 'k.update': t_update, 'k.update_real': t_update_real, 'k.accessors': t_accessors, 'k.result_type': t_result_type}


def jobs(tier):
    out = []
    for shape in ['none'] + list(SHAPES):
        out.append(Job('C12', 'k.update', t_update, dict(shape=shape),
                       witnesses=() if shape == 'none' else ('validator accepted', 'validator rejected')))
    for i in range(len(REAL_CASES)):
        out.append(Job('C12', 'k.update_real', t_update_real, dict(case=i)))
    out.append(Job('C12', 'k.update_twins', t_update_twins, {}))
    out.append(Job('C12', 'k.result_type', t_result_type, dict(all_orders=(tier == 'thorough'))))
    for par in (True, False):
        for kind in ('scalar', 'dict', 'list'):
            out.append(Job('C12', 's1.views_after_run', t_views_after_run, dict(par=par, kind=kind)))
    for acc in ACCESSORS:
        if tier == 'quick':
            out.append(Job('C12', 'k.accessors', t_accessors, dict(n=2, accessor=acc, kinds='full', include='table'), witnesses=('value', 'raise:same', 'raise:ValueError')))
            out.append(Job('C12', 'k.accessors', t_accessors, dict(n=2, accessor=acc, kinds='full', include='default')))
            out.append(Job('C12', 'k.accessors', t_accessors, dict(n=1, accessor=acc, kinds='full', include='table')))
        else:
            out.append(Job('C12', 'k.accessors', t_accessors, dict(n=3, accessor=acc, kinds='small', include='table')))
            out.append(Job('C12', 'k.accessors', t_accessors, dict(n=3, accessor=acc, kinds='full', include='default')))
            out.append(Job('C12', 'k.accessors', t_accessors, dict(n=2, accessor=acc, kinds='full', include='table')))
            out.append(Job('C12', 'k.accessors', t_accessors, dict(n=0, accessor=acc, kinds='full', include='table')))
    return out
