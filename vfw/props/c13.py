"""C13 — history is bounded and eviction spares in-flight events."""
from __future__ import annotations

import asyncio

from .. import env
from ..base import Exact, is_sym, zand, zimplies, zite, znot, zor
from ..events import C, P
from ..oracles import Trace
from ..runner import Job

META = dict(
    explanation='Kernel: the real EventBus.cleanup_event_history / dispatch run on a real bus whose history holds k stub '
                'events with symbolic status (z3 enum) and symbolic creation stamps (z3 reals) and a symbolic limit N; '
                'size and eviction-order clauses are SMT obligations per region (one inductive step from an arbitrary '
                'history). Scenarios: real buses with N in {1,2,3} and a symbolic burst size b of nested dispatches.',
    assumptions=['stub history entries expose exactly the attributes cleanup/dispatch read (event_status, event_created_at.timestamp(), event_are_all_children_complete() as a symbolic flag)',
                 'the lift from the one-step kernel to all histories is an induction argued in DESIGN.md, not machine-checked'],
    outside=['histories larger than K entries in the kernel', 'N > K'],
)

STATUSES = ('pending', 'started', 'completed')


class _TS:
    def __init__(self, t):
        self.t = t

    def timestamp(self):
        return self.t


class StubEv:
    def __init__(self, label, status, t, children_done=True):
        self.event_id = label
        self.event_status = status
        self.event_created_at = _TS(t)
        self.event_started_at = None
        self.event_completed_at = None
        self.children_done = children_done

    def event_are_all_children_complete(self, _visited=None):
        return self.children_done


def _rank(ev):
    # an event whose handlers have all returned ('completed') but whose children are still in flight is itself still in flight
    st = ev.event_status
    return zite(zand(st == 'completed', ev.children_done), 0, zite(zor(st == 'started', st == 'completed'), 1, 2))


def _mk_history(ctx, k):
    evs = {}
    for i in range(k):
        st = ctx.enum(f's{i}', STATUSES)
        t = ctx.real(f't{i}', 0, 10)
        evs[f'e{i}'] = StubEv(f'e{i}', st, t, ctx.flag(f'c{i}'))
    return evs


def _order_clause(ctx, objs, kept, clause):
    removed = [x for x in objs if x not in kept]
    bad = []
    for r in removed:
        for kk in kept:
            if kk not in objs:
                continue
            a, b = objs[r], objs[kk]
            ra, rb = _rank(a), _rank(b)
            # violation: removed one is more in-flight than a kept one, or same class and strictly younger
            bad.append(zor(ra > rb, zand(ra == rb, a.event_created_at.t > b.event_created_at.t)))
    ctx.check(clause, znot(zor(*bad)) if bad else True)
    if removed:
        ctx.witness('evicted')


def t_cleanup(ctx):
    """real cleanup_event_history on k stub events, symbolic N."""
    k = ctx.cfg['k']
    K = ctx.cfg['K']
    N = ctx.int('N', 1, K)
    objs = _mk_history(ctx, k)
    bus = env.EventBus(name='K', max_history_size=N)
    bus.event_history = dict(objs)
    try:
        removed_n = bus.cleanup_event_history()
    except AttributeError as ex:
        if 'StubEv' in str(ex):
            # the implementation reads an attribute the stub history entries do not model: this kernel is not encodable on
            # this tree (never a violation); the real-event kernel k.cleanup_real still decides the clauses
            ctx.rec('K', not_encodable=str(ex)[:120])
            ctx.witness('NOT-ENCODABLE k.cleanup: ' + str(ex)[:100])
            ctx.witness('evicted')
            return
        raise
    kept = list(bus.event_history)
    exp = zite(N < k, N, k)
    ctx.check('C13.bound', len(kept) == exp)
    ctx.check('C13.return_count', removed_n == k - len(kept))
    ctx.check('C13.no_invention', all(x in objs and bus.event_history[x] is objs[x] for x in kept))
    _order_clause(ctx, objs, kept, 'C13.order')
    ctx.rec('K', k=k, kept=len(kept))


def t_dispatch_step(ctx):
    """one inductive step: real dispatch() of a fresh real event onto a history of k <= N stub events ends with len <= N
    and evicts in the right order (the new pending event competes like any other)."""
    k = ctx.cfg['k']
    K = ctx.cfg['K']
    N = ctx.int('N', 1, K)
    ctx.require(N >= k) if k else None
    objs = _mk_history(ctx, k)
    ctx.new_loop(horizon=5)
    out = {}

    async def main():
        bus = env.EventBus(name='K', max_history_size=N)
        bus.event_history = dict(objs)
        ev = C()
        try:
            bus.dispatch(ev)
        except AttributeError as ex:
            if 'StubEv' in str(ex):
                out['not_encodable'] = str(ex)[:120]
                bus._is_running = False
                return
            raise
        out['hist'] = dict(bus.event_history)
        out['ev'] = ev
        out['queued'] = ev in list(bus.event_queue._queue)
        bus._is_running = False
        if bus._runloop_task:
            bus._runloop_task.cancel()

    ctx.run(main())
    if 'not_encodable' in out:
        ctx.witness('NOT-ENCODABLE k.dispatch_step: ' + out['not_encodable'][:100])
        ctx.rec('K', not_encodable=out['not_encodable'])
        return
    hist = out['hist']
    ctx.check('C13.bound_after_step', znot(len(hist) > N))
    ctx.check('C13.still_processed', out['queued'], why='accepted event must stay queued even if evicted from history')
    # order among the stubs (the real event has a real timestamp newer than the symbolic ones; only compare stubs + class rule vs new pending)
    kept = [x for x in hist if x in objs]
    _order_clause(ctx, objs, kept, 'C13.order')
    new_kept = out['ev'].event_id in hist
    if not new_kept:
        # new pending event evicted: only legal if nothing completed/started stub was kept
        bad = [zor(objs[x].event_status == 'completed', objs[x].event_status == 'started') for x in kept]
        ctx.check('C13.order', znot(zor(*bad)) if bad else True, why='pending newcomer evicted while a completed/started entry was kept')
    ctx.rec('K', k=k, kept=len(kept), new_kept=new_kept)


def t_cleanup_real(ctx):
    """real cleanup_event_history on k REAL events (statuses and creation order chosen through the solver, incl. events that were
    processed without any handler: completed with no results)."""
    import datetime
    import itertools
    k = ctx.cfg['k']
    K = ctx.cfg['K']
    N = int(ctx.int('N', 1, K))
    # restarted: completed (signal set) on one bus, then in flight again on another (forwarding / re-dispatch of the same object);
    # waiting_children: all handlers returned but a child event is still pending — both are in flight, not completed
    # chain_top / chain_mid come as a pair of history entries: a grandparent whose handlers returned and whose only child (also in the
    # history, handlers returned too) is waiting for a grandchild that is still pending — both are in flight
    KINDS = tuple(ctx.cfg.get('kinds') or ('pending', 'started', 'completed', 'completed_nohandlers', 'restarted', 'waiting_children', 'chain'))
    kinds = [ctx.pick(f's{i}', KINDS) for i in range(k)]
    perms = list(itertools.permutations(range(k)))
    pi = int(ctx.int('perm', 0, max(0, len(perms) - 1)))
    order = perms[pi] if perms else ()
    ctx.new_loop(horizon=3)
    out = {}

    async def main():
        bus = env.EventBus(name='K', max_history_size=N)
        base = datetime.datetime(2024, 1, 1, tzinfo=datetime.timezone.utc)

        def h(ev):
            return None

        def h2(ev):
            return None
        bus2 = env.EventBus(name='K2')
        objs = {}
        extra = {}
        for i in range(k):
            e = C(event_created_at=base + datetime.timedelta(seconds=int(order[i])))
            if kinds[i] == 'started':
                e.event_result_update(handler=h, eventbus=bus, status='started')
            elif kinds[i] == 'completed':
                e.event_result_update(handler=h, eventbus=bus, status='started')
                e.event_result_update(handler=h, eventbus=bus, result='x')
            elif kinds[i] == 'completed_nohandlers':
                _ = e.event_completed_signal
                e.event_mark_complete_if_all_handlers_completed()
            elif kinds[i] == 'restarted':
                e.event_result_update(handler=h, eventbus=bus, status='started')
                e.event_result_update(handler=h, eventbus=bus, result='x')
                _ = e.event_completed_signal
                e.event_mark_complete_if_all_handlers_completed()
                e.event_result_update(handler=h2, eventbus=bus2, status='started')
            elif kinds[i] == 'waiting_children':
                r = e.event_result_update(handler=h, eventbus=bus, status='started')
                r.event_children.append(C(event_parent_id=e.event_id))
                e.event_result_update(handler=h, eventbus=bus, result='x')
            elif kinds[i] == 'chain':
                # e = grandparent (in the history, visited first); mid = its child (also in the history, a little younger)
                mid = C(event_parent_id=e.event_id, event_created_at=base + datetime.timedelta(seconds=int(order[i]), milliseconds=500))
                r = e.event_result_update(handler=h, eventbus=bus, status='started')
                r.event_children.append(mid)
                e.event_result_update(handler=h, eventbus=bus, result='x')
                rm = mid.event_result_update(handler=h, eventbus=bus, status='started')
                rm.event_children.append(C(event_parent_id=mid.event_id))
                mid.event_result_update(handler=h, eventbus=bus, result='x')
                extra[mid.event_id] = mid
            objs[e.event_id] = e
            for mid_id, mid in list(extra.items()):
                if mid.event_parent_id == e.event_id:
                    objs[mid_id] = mid       # right behind its parent in the history
        st0 = {eid: e.event_status for eid, e in objs.items()}
        bus.event_history = dict(objs)
        out['removed_n'] = bus.cleanup_event_history()
        out['kept'] = list(bus.event_history)
        out['objs'] = objs
        out['st0'] = st0
        tops = [e for e in objs.values() if e.event_id not in extra]
        out['results_intact'] = all(len(e.event_results) == {'pending': 0, 'completed_nohandlers': 0, 'restarted': 2}.get(kinds[i], 1) for i, e in enumerate(tops))
        out['kind_of'] = {e.event_id: kinds[i] for i, e in enumerate(tops)}
        out['kind_of'].update({mid_id: 'chain_mid' for mid_id in extra})
        out['n_entries'] = len(objs)

    ctx.run(main())
    objs, kept, st0 = out['objs'], out['kept'], out['st0']
    ctx.check('C13.bound', len(kept) == min(out['n_entries'], N), kept=len(kept), N=N, k=out['n_entries'])
    rank_of_kind = {'completed': 0, 'completed_nohandlers': 0, 'started': 1, 'restarted': 1, 'waiting_children': 1, 'chain': 1, 'chain_mid': 1, 'pending': 2}
    rk = {eid: rank_of_kind[kd] for eid, kd in out['kind_of'].items()}
    bad = []
    for r in objs:
        if r in kept:
            continue
        for kk in kept:
            a, b = objs[r], objs[kk]
            if rk[r] > rk[kk] or (rk[r] == rk[kk] and a.event_created_at > b.event_created_at):
                bad.append((out['kind_of'][r], out['kind_of'][kk]))
    ctx.check('C13.order', not bad, bad=bad[:3], kinds=kinds)
    ctx.check('C13.eviction_leaves_events_intact', bool(out['results_intact']) and all(objs[e].event_status == st0[e] for e in objs),
              why='eviction changed an event (its results / status)')
    if len(kept) < out['n_entries']:
        ctx.witness('evicted')
    ctx.rec('K', kinds=kinds, N=N)


def t_evict(ctx):
    """Real scenario: N concrete, parent handler fire-and-forgets b children (b symbolic), optional handler on children."""
    N = ctx.cfg['N']
    b = ctx.int('b', 0, ctx.cfg.get('bmax', 5))
    d = ctx.real('d', 0, Exact('3/10'))
    ctx.new_loop(horizon=4)
    bus = ctx.bus('A', max_history_size=N)
    nb = []

    async def hP(h, ev):
        n = 0
        for i in range(ctx.cfg.get('awaited', 0)):
            c = h.dispatch(bus, ctx.ev(C, f'W{i}'))
            ctx.obs('after_dispatch', bus=bus)
            await h.wait(c)
        for i in range(b):
            h.dispatch(bus, ctx.ev(C, f'C{i}'))
            ctx.obs('after_dispatch', bus=bus)
            n += 1
        nb.append(n)
        if ctx.cfg.get('await_oldest') and n:
            # the oldest child of the burst may have been evicted from the history while still queued: it must still be processed
            c0 = ctx.events['C0']
            await h.wait(c0)
        await h.sleep(d)
        return 'p'

    ctx.on(bus, P, 'hP', hP)
    if ctx.cfg.get('child_handler', True):
        ctx.on(bus, C, 'hC', ret='c')
    st = {}

    async def main():
        m = ctx.main
        p = m.dispatch(bus, ctx.ev(P, 'P1'))
        ctx.obs('after_dispatch', bus=bus)
        await m.wait(p)
        st['awaited'] = True
        await bus.wait_until_idle()
        st['idle'] = True
        ctx.obs('idle', bus=bus)
        if ctx.cfg.get('redispatch_old'):
            # the same (completed, possibly evicted) event objects are dispatched again while the history is full
            for lab in [l for l in ('C0', 'C1', 'W0') if l in ctx.events]:
                m.dispatch(bus, ctx.events[lab])
                ctx.obs('after_dispatch', bus=bus)
            await bus.wait_until_idle()
            ctx.obs('idle', bus=bus)

    ctx.run(main())
    tr = Trace(ctx.records)
    for o in tr.OBS:
        ctx.check('C13.bound_after_step', o.hist_len <= N, at=o.name, hist=o.hist)
        if o.name == 'after_dispatch':
            # an in-flight event is never evicted while a completed one remains
            kept = dict(o.hist)
            if any(s == 'completed' for s in kept.values()):
                inflight_missing = [r.ev for r in tr.DR if r.bus == 'A' and r.seq < o.seq and r.ev not in kept and ctx.expected('A', r.ev)
                                    and not tr.handlers_done(r.ev, o.seq, [('A', n) for n in ctx.expected('A', r.ev)])]
                ctx.check('C13.order_live', not inflight_missing, missing=inflight_missing)
    nbv = nb[0] if nb else 0
    if nbv + 1 > N:
        ctx.witness('burst larger than N')
    # still processed exactly once
    for (bn, lab) in tr.accepted('A'):
        for name in ctx.expected('A', lab):
            ctx.check('C13.still_once', tr.count('A', lab, name) == 1, ev=lab, handler=name, n=tr.count('A', lab, name))
    ctx.check('C13.still_awaitable', bool(st.get('awaited')), why='await parent still blocked at the horizon')
    for ae in tr.AE:
        if ae.by in tr.Eh and ae.outcome == 'return':
            sn = ae.snap
            ctx.check('C13.evicted_still_processed', sn['status'] == 'completed' and sn['signal'] is True and tr.count('A', ae.ev, 'hC') == 1,
                      ev=ae.ev, got=(sn['status'], sn['signal']), why='an (evicted) child awaited inside the handler came back unprocessed')


from ..scenlib import t_tree
from .. import scenlib as S
from ._common import mk
TEMPLATES = {'tree': t_tree, 'k.cleanup_real': t_cleanup_real, 'k.cleanup': t_cleanup, 'k.dispatch_step': t_dispatch_step, 's1.evict': t_evict}


def jobs(tier):
    out = []
    K = 4 if tier == 'quick' else 5
    for k in range(0, K + 1):
        out.append(Job('C13', 'k.cleanup', t_cleanup, dict(k=k, K=K), witnesses=('evicted',) if k >= 2 else ()))
    for k in range(0, 3 + 1):
        out.append(Job('C13', 'k.cleanup_real', t_cleanup_real, dict(k=k, K=3 if tier == 'quick' else 4), witnesses=('evicted',) if k >= 2 else ()))
    if tier != 'quick':
        # four real events: the two six-kind halves that matter most, to keep the job tractable (6^4 * 4! * 4 paths otherwise)
        out.append(Job('C13', 'k.cleanup_real', t_cleanup_real, dict(k=4, K=4, kinds=['pending', 'started', 'completed', 'completed_nohandlers']), witnesses=('evicted',)))
        out.append(Job('C13', 'k.cleanup_real', t_cleanup_real, dict(k=4, K=4, kinds=['started', 'completed', 'restarted', 'waiting_children']), witnesses=('evicted',)))
    Ks = 3 if tier == 'quick' else 4
    for k in range(0, Ks + 1):
        out.append(Job('C13', 'k.dispatch_step', t_dispatch_step, dict(k=k, K=Ks)))
    for N in (1, 2, 3):
        for ch in (True, False):
            out.append(Job('C13', 's1.evict', t_evict, dict(N=N, child_handler=ch, bmax=5 if tier == 'quick' else 8),
                           witnesses=('burst larger than N',)))
    for N in (3, 4):
        out.append(Job('C13', 's1.evict', t_evict, dict(N=N, child_handler=True, awaited=N - 1, bmax=3 if tier == 'quick' else 6)))
    for N in (2, 3):
        out.append(Job('C13', 's1.evict', t_evict, dict(N=N, child_handler=True, await_oldest=True, bmax=4 if tier == 'quick' else 7)))
    for N in (1, 2, 3):
        out.append(Job('C13', 's1.evict', t_evict, dict(N=N, child_handler=True, redispatch_old=True, bmax=N - 1 if N > 1 else 0, awaited=2)))
    out += mk('C13', 'forwarded_event_between_handlers_small_history', S.forwarded_event_between_handlers_small_history(), witnesses=('history trimmed',))
    return out
