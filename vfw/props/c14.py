"""C14 — dispatch accepts or rejects atomically; accepted events are never dropped."""
from __future__ import annotations

import asyncio
import contextvars
import datetime

from .. import env
from ..base import Exact, is_sym, zand, zimplies, zite, znot, zor
from ..events import C, P
from ..oracles import Trace
from ..runner import Job
from .. import scenlib as S
from ..scenlib import t_tree
from ._common import flat, matrix_jobs, mk

META = dict(
    explanation='Kernel: the real EventBus.dispatch() called from a pre-state with a symbolic queue fill q (through qsize()) and '
                'p in-flight history entries, inside / outside a real handler context (built through the real '
                'event_result_update and the real context variables), with and without limits and with no running loop. '
                'Scenario: a handler dispatching a symbolic number n of children, some of which are rejected.',
    assumptions=['queue fill is injected through an overridden qsize() on a CleanShutdownQueue subclass (kernel only)',
                 'in-flight history entries in the kernel are stub objects exposing event_status / event_created_at'],
    outside=['backlogs above 120', 'rejections caused by a queue shut down concurrently with dispatch'],
)


class _TS:
    def __init__(self, t): self.t = t
    def timestamp(self): return self.t


class StubEv:
    def __init__(self, label, status, t):
        self.event_id = label
        self.event_status = status
        self.event_created_at = _TS(t)
        self.event_started_at = None
        self.event_completed_at = None


def t_dispatch_kernel(ctx):
    p = ctx.cfg['p']
    limits = ctx.cfg.get('limits', True)
    inside = ctx.cfg.get('inside', True)
    loop_running = ctx.cfg.get('loop', True)
    q = ctx.int('q', 0, 60)
    svc = env.service
    res = {}

    class SQ(svc.CleanShutdownQueue):
        def qsize(self):
            return q + len(self._queue)

    def body(bus):
        for i in range(p):
            bus.event_history[f'h{i}'] = StubEv(f'h{i}', 'pending' if i % 2 else 'started', i)
        parent = P()
        bus.event_history[parent.event_id] = parent

        async def h(ev):
            pass
        r = parent.event_result_update(handler=h, eventbus=bus, status='started')
        if inside:
            svc._current_event_context.set(parent)
            svc.inside_handler_context.set(True)
            svc._current_handler_id_context.set(r.handler_id)
        child = C()
        try:
            ret = bus.dispatch(child)
            res['out'] = 'accepted'
            res['same'] = ret is child
        except BaseException as ex:
            res['out'] = 'raise:' + type(ex).__name__
        res['in_hist'] = child.event_id in bus.event_history
        res['queued'] = bool(bus.event_queue) and any(x is child for x in bus.event_queue._queue)
        res['is_child'] = any(x is child for x in r.event_children)
        res['any_child'] = any(any(x is child for x in rr.event_children) for rr in parent.event_results.values())
        res['path'] = list(child.event_path)
        res['parent_id'] = child.event_parent_id

    if loop_running:
        ctx.new_loop(horizon=5)

        async def main():
            bus = env.EventBus(name='B', max_history_size=50 if limits else None)
            bus._start()
            bus.event_queue = SQ(maxsize=50 if limits else 0)
            body(bus)
            bus._is_running = False
            if bus._runloop_task:
                bus._runloop_task.cancel()
        ctx.run(main())
    else:
        bus = env.EventBus(name='B', max_history_size=50 if limits else None)
        bus.event_queue = SQ(maxsize=50 if limits else 0)
        contextvars.copy_context().run(body, bus)

    ctx.rec('K', **{k: v for k, v in res.items() if k != 'parent_id'})
    acc = res['out'] == 'accepted'
    if acc:
        ctx.witness('accept')
        ctx.check('C14.accept_or_raise', res.get('same') and res['queued'], got=res)
        if p + 2 <= 50 or not limits:
            ctx.check('C14.accepted_in_history', res['in_hist'], got=res)
        if inside:
            ctx.check('C14.accepted_child_recorded', res['is_child'], got=res)
    else:
        ctx.witness('reject:' + res['out'])
        ctx.check('C14.no_trace', not res['in_hist'] and not res['queued'] and not res['any_child'], got=res)
        # (the refused event was fresh: the bus that refused it must not appear in its event_path either)
        ctx.check('C14.no_trace_path', res['path'] == [], got=res)
    if not limits and loop_running:
        ctx.check('C14.unbounded_never_rejects', acc, got=res)


def t_flood(ctx):
    """A handler dispatches n children (n symbolic), swallowing rejections; the parent must still complete and every
    accepted child must be handled exactly once."""
    lo, hi = ctx.cfg['n_range']
    n = ctx.int('n', lo, hi)
    ctx.new_loop(horizon=6)
    bus = ctx.bus('A', max_history_size=200)  # large enough that eviction (C13/F11) does not interfere
    rejected = []

    retried = []

    async def hP(h, ev):
        first = None
        for i in range(n):
            c = ctx.ev(C, f'C{i}')
            try:
                h.dispatch(bus, c)
                first = first or c
            except Exception:
                rejected.append(c)
        if ctx.cfg.get('retry') and rejected and first is not None:
            await h.wait(first)          # drains the queue (inline)
            for c in rejected:
                try:
                    h.dispatch(bus, c)   # retry with the same event object
                    retried.append((c, 'accepted'))
                except Exception:
                    retried.append((c, 'rejected'))
        return 'p'

    ctx.on(bus, P, 'hP', hP)
    ctx.on(bus, C, 'hC', ret='c')
    st = {}

    async def main():
        m = ctx.main
        p = m.dispatch(bus, ctx.ev(P, 'P1'))
        await m.wait(p)
        st['awaited'] = True
        await bus.wait_until_idle()
        st['idle'] = True

    ctx.run(main())
    tr = Trace(ctx.records)
    if rejected:
        ctx.witness('rejection inside a handler')
    ctx.check('C14.parent_completes', bool(st.get('awaited')), why='await parent still blocked at the horizon', rejected=len(rejected))
    ctx.check('C14.idle_after', bool(st.get('idle')) or not st.get('awaited'), why='wait_until_idle blocked')
    pres = list(ctx.events['P1'].event_results.values())
    kids = [x for r in pres for x in r.event_children]
    accepted_retry = [c for (c, how) in retried if how == 'accepted']
    if accepted_retry:
        ctx.witness('retry accepted')
    for c in accepted_retry:
        lab = ctx.label(c)
        sc = ctx.snap(c)
        ctx.check('C14.accepted_processed', tr.count('A', lab, 'hC') == 1 and sc['status'] == 'completed' and sc['signal'] is True, ev=lab,
                  n=tr.count('A', lab, 'hC'), got=(sc['status'], sc['signal']), why='retried dispatch returned normally but the event was not processed')
    # lineage of the flood (C09): every accepted child exactly once among the children of the dispatching handler's result
    for r_ in tr.DR:
        if r_.caller in tr.Eh and r_.ev != 'P1':
            e = ctx.events[r_.ev]
            cnt = sum(1 for k in kids if k is e)
            ctx.check('C09.child_once', cnt == 1, ev=r_.ev, n=cnt)
    for c in [c for c in rejected if c not in accepted_retry]:
        ctx.check('C14.no_trace', c.event_id not in bus.event_history and not any(k is c for k in kids), ev=ctx.label(c))
        ctx.check('C14.rejected_not_run', tr.count('A', ctx.label(c), 'hC') == 0, ev=ctx.label(c))
    dx = {r.ev for r in tr.DX}
    ctx.check('C14.raise_iff_rejected', dx == {ctx.label(c) for c in rejected} | {ctx.label(c) for (c, how) in retried if how == 'rejected'})
    if st.get('idle'):
        for (bn, lab) in tr.accepted('A'):
            for name in ctx.expected('A', lab):
                ctx.check('C14.accepted_once', tr.count('A', lab, name) == 1, ev=lab, handler=name, n=tr.count('A', lab, name))


def t_restart(ctx):
    """dispatch() after the bus's run loop ended — through stop(), or because the run-loop task was cancelled from outside while the
    event loop keeps running — still either raises or accepts AND processes the event."""
    how = ctx.cfg['how']          # 'stop' | 'cancel'
    t_c = ctx.real('t_c', 0, Exact('1/2'))
    d = Exact(ctx.cfg.get('d', '1/5'))
    # a dispatch in the very loop tick of an external cancellation (before it is delivered) is outside the claim: gap > 0
    gap = ctx.real('gap', Exact('1/100') if how != 'stop' else 0, Exact('3/10'))
    ctx.new_loop(horizon=8)
    bus = ctx.bus('A')

    async def hP(h, ev):
        await h.sleep(d)
        return 'p'
    ctx.on(bus, P, 'hP', hP)
    ctx.on(bus, C, 'hC', ret='c')
    st = {}

    async def main():
        m = ctx.main
        m.dispatch(bus, ctx.ev(P, 'P1', event_timeout=30.0))
        m.dispatch(bus, ctx.ev(C, 'C0', event_timeout=30.0))
        await asyncio.sleep(t_c)
        if how == 'stop':
            await bus.stop()
        elif how == 'cancel_runloop':
            # only the bus's run loop task is cancelled (a supervisor that knows which task that is); helper tasks it created survive
            for t in list(ctx.loop._all_tasks):
                if t is not asyncio.current_task() and not t.done() and getattr(t.get_coro(), '__name__', '') == '_run_loop':
                    t.cancel()
        else:
            # e.g. an application-level "cancel everything except me" sweep
            for t in list(ctx.loop._all_tasks):
                if t is not asyncio.current_task() and not t.done():
                    t.cancel()
        await asyncio.sleep(gap)
        try:
            late = m.dispatch(bus, ctx.ev(C, 'Clate', event_timeout=30.0))
            st['late'] = 'accepted'
        except Exception as ex:  # noqa
            st['late'] = 'raise:' + type(ex).__name__
            if how == 'stop':
                # rejected, nothing to wait for (on this tree the rejected dispatch also leaves a run-loop task spinning on the
                # shut-down queue — observation F19, not part of this property — so the template must not sleep here)
                st['done'] = True
                return
        await asyncio.sleep(2)
        st['done'] = True

    ctx.run(main())
    tr = Trace(ctx.records)
    if st.get('late') == 'accepted':
        ctx.witness('late dispatch accepted')
        sl = ctx.snap(ctx.events['Clate'])
        ctx.check('C14.accepted_processed', tr.count('A', 'Clate', 'hC') == 1 and sl['status'] == 'completed' and sl['signal'] is True,
                  n=tr.count('A', 'Clate', 'hC'), got=(sl['status'], sl['signal']), why='dispatch() accepted the event but the bus never processed it')
    else:
        ctx.witness('late dispatch rejected')
    ctx.check('C14.main_finished', bool(st.get('done')))


def t_mixed_clock(ctx):
    """Events whose event_created_at was supplied by the caller (replayed from a log, built by another process): time-zone aware or
    naive, older or newer than "now" (chosen through the solver), onto a bus with a small history limit so that every dispatch
    trims the history.  Each dispatch, from main and from inside a handler, either raises and leaves no trace or is accepted and
    processed."""
    import datetime
    N = ctx.cfg.get('N', 2)
    n = 4
    kinds = [ctx.pick(f'k{i}', ('default', 'aware_old', 'naive_old', 'naive_new')) for i in range(n)]
    ctx.new_loop(horizon=6)
    bus = ctx.bus('A', max_history_size=N)
    mk = {'default': lambda: {}, 'aware_old': lambda: dict(event_created_at=datetime.datetime(2020, 1, 1, tzinfo=datetime.timezone.utc)),
          'naive_old': lambda: dict(event_created_at=datetime.datetime(2020, 1, 1, 12)),
          'naive_new': lambda: dict(event_created_at=datetime.datetime(2090, 1, 1, 12))}
    outcome = {}

    def try_dispatch(inv, lab, kind, cls=C):
        e = ctx.ev(cls, lab, event_timeout=30.0, **mk[kind]())
        try:
            inv.dispatch(bus, e)
            outcome[lab] = 'accepted'
        except Exception as ex:  # noqa
            outcome[lab] = 'raise:' + type(ex).__name__

    async def hP(h, ev):
        try_dispatch(h, 'C2', kinds[2])
        try_dispatch(h, 'C3', kinds[3])
        return 'p'
    ctx.on(bus, P, 'hP', hP)
    ctx.on(bus, C, 'hC', ret='c')
    st = {}

    async def main():
        m = ctx.main
        try_dispatch(m, 'C0', kinds[0])
        try_dispatch(m, 'C1', kinds[1])
        try_dispatch(m, 'P1', 'default', P)
        await asyncio.sleep(1)
        await bus.wait_until_idle()
        st['idle'] = True
    ctx.run(main())
    tr = Trace(ctx.records)
    ctx.check('C14.idle_after', bool(st.get('idle')), why='wait_until_idle blocked')
    p1 = ctx.events['P1']
    kids = [k for r in p1.event_results.values() for k in r.event_children]
    for lab, how in outcome.items():
        e = ctx.events[lab]
        n_run = tr.count('A', lab, 'hP' if lab == 'P1' else 'hC')
        if how == 'accepted':
            sc = ctx.snap(e)
            ctx.check('C14.accepted_processed', n_run == 1 and sc['status'] == 'completed' and sc['signal'] is True, ev=lab, n=n_run, got=(sc['status'], sc['signal']))
            ctx.witness('accepted')
        else:
            ctx.witness('rejected')
            ctx.check('C14.no_trace', e.event_id not in bus.event_history and not any(k is e for k in kids), ev=lab, how=how,
                      in_history=e.event_id in bus.event_history, child=any(k is e for k in kids))
            ctx.check('C14.rejected_not_run', n_run == 0, ev=lab, how=how, n=n_run)


TEMPLATES = {'s1.mixed_clock': t_mixed_clock, 'k.dispatch': t_dispatch_kernel, 's1.flood': t_flood, 's1.restart': t_restart, 'tree': t_tree}


def jobs(tier):
    out = []
    ps = (0, 48, 49, 50, 98) if tier == 'quick' else tuple(range(0, 110, 7)) + (47, 48, 50, 97, 98, 99)
    for p in sorted(set(ps)):
        for inside in (True, False):
            out.append(Job('C14', 'k.dispatch', t_dispatch_kernel, dict(p=p, inside=inside, limits=True, loop=True)))
    out.append(Job('C14', 'k.dispatch', t_dispatch_kernel, dict(p=60, inside=True, limits=False, loop=True)))
    out.append(Job('C14', 'k.dispatch', t_dispatch_kernel, dict(p=3, inside=True, limits=True, loop=False)))
    out.append(Job('C14', 'k.dispatch', t_dispatch_kernel, dict(p=3, inside=False, limits=True, loop=False)))
    for dd in ('1/5', '1/20'):
        out.append(Job('C14', 's1.restart', t_restart, dict(how='cancel', d=dd), witnesses=('late dispatch accepted',)))
    for dd in ('1/20', '1/2'):
        out.append(Job('C14', 's1.restart', t_restart, dict(how='stop', d=dd)))
    for dd in ('1/5', '1/20'):
        out.append(Job('C14', 's1.restart', t_restart, dict(how='cancel_runloop', d=dd), witnesses=('late dispatch accepted',)))
    if tier == 'quick':
        out.append(Job('C14', 's1.flood', t_flood, dict(n_range=[47, 54]), witnesses=('rejection inside a handler',)))
        out.append(Job('C14', 's1.flood', t_flood, dict(n_range=[50, 53], retry=True), witnesses=('retry accepted',)))
        out.append(Job('C14', 's1.flood', t_flood, dict(n_range=[0, 3])))
    else:
        for a in range(0, 120, 10):
            out.append(Job('C14', 's1.flood', t_flood, dict(n_range=[a, a + 9])))
            if a >= 50:
                out.append(Job('C14', 's1.flood', t_flood, dict(n_range=[a, a + 9], retry=True)))
    out.append(Job('C14', 's1.mixed_clock', t_mixed_clock, dict(N=3), witnesses=('accepted',)))   # (N=2 would be F11: two un-awaited children evict their parent)
    out += mk('C14', 'roots3', S.roots3())
    out += mk('C14', 'dispatch_then_block', S.dispatch_then_block(2))
    out += mk('C14', 'recur_then_other', S.recur_then_other())
    out += mk('C14', 'loop_died_with_backlog', S.loop_died_with_backlog())
    out += mk('C14', 'flood_retry_rejected', S.flood_retry_rejected())
    out += mk('C14', 'child/await/k1', S.child('await', k=1))
    out += mk('C14', 'flood_idle', S.flood_idle())
    out += mk('C14', 'deep4/await', S.deep4('await'))
    out += mk('C14', 'deep4/ff', S.deep4('ff'))
    out += mk('C14', 'deep4/ff/wild_raise', S.deep4('ff', wild_raise=True))
    out += matrix_jobs('C14', 'm3', tier)
    out += matrix_jobs('C14', 'm4', tier)
    return flat(out)
