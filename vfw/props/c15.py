"""C15 — wait_until_idle is sound and live."""
from .. import scenlib as S
from ._common import flat, matrix_jobs, mk, t_tree

META = dict(
    explanation='wait_until_idle() is called by main while external dispatches (symbolic instants), nested dispatches and the run '
                'loop\'s 0.1 s poll race with it, and after fault histories (raising handlers, time-outs, rejected dispatches, '
                'evictions, refused recursion). At return: queue empty, no pending/started history entry and, from the harness '
                'records, every event accepted by that bus before the call has all its handlers there exited. Liveness: returns '
                'before the virtual horizon.',
    assumptions=['calls with timeout= are not exercised (the property says nothing about them)'],
    outside=['more than 2 buses'],
)
TEMPLATES = {'tree': t_tree}


def idle_race():
    """wait_until_idle at t_w racing two external dispatches t1<=t2 and a nested dispatch."""
    handlers = [['A', 'P', 'hP', [['sleep', 'd1'], ['disp', 'A', 'C', 'C_{inv}'], ['ret', 'p']]], ['A', 'C', 'hC', [['sleep', 'd1'], ['ret', 'c']]]]
    main = [['sleep', 't_w'], ['idle', 'A'], ['obs_all', 'end']]
    return dict(buses=['A'], reals={'d1': ['0', '1/4'], 't1': ['0', '1/2'], 't_w': ['0', '1/2']}, handlers=handlers, main=main,
                actors={'a': [['sleep', 't1'], ['root', 'A', 'P', 'P1']], 'b': [['sleep', '1/4'], ['root', 'A', 'P', 'P2']]}, horizon=6)


def after_timeout():
    handlers = [['A', 'P', 'hP', [['sleep', 'd1'], ['dispawait', 'A', 'C', 'C1'], ['sleep', 'd1'], ['ret', 'p']]],
                ['A', 'C', 'hC', [['sleep', 'd2'], ['ret', 'c']]], ['A', 'L', 'hL', [['ret', 'l']]]]
    main = [['root', 'A', 'P', 'P1'], ['root', 'A', 'L', 'L1'], ['idle', 'A'], ['obs_all', 'end']]
    return dict(buses=['A'], reals={'d1': ['0', '3/5'], 'd2': ['0', '3/5']}, handlers=handlers, main=main, timeouts={'P1': '1/4'}, T='1/4', horizon=6)


def recur_idle(mode):
    cfg = S.recur(mode, 4)
    cfg['main'] = [['root', 'A', 'R', 'R0'], ['idle', 'A'], ['obs_all', 'end']]
    return cfg


def jobs(tier):
    W = ('idle returned',)
    out = [
        mk('C15', 'idle_race', idle_race(), split={'t_w': 4, 't1': 4}),
        mk('C15', 'child/await', S.child('await', k=1), witnesses=W),
        mk('C15', 'errors/parent', S.errors('ValueError', 'parent'), witnesses=W),
        mk('C15', 'after_timeout', after_timeout(), witnesses=W),
        mk('C15', 'recur/await', recur_idle('await')),
        mk('C15', 'x2/other_fresh', S.two_bus_await('other_fresh', ('A', 'B'), yield_first=False), witnesses=W),
        mk('C15', 'idle_other_bus/AB', S.idle_other_bus(('A', 'B')), witnesses=W, split={'t_w': 2}),
        mk('C15', 'idle_other_bus/BA', S.idle_other_bus(('B', 'A')), witnesses=W, split={'t_w': 2}),
        mk('C15', 'idle_other_bus/small_history', S.idle_other_bus_small_history(('A', 'B')), witnesses=W, split={'t_w': 2}),
        mk('C15', 'fw_target_cleared_then_timeout', S.fw_target_cleared_then_timeout(), witnesses=W),
        mk('C15', 'flood_idle', S.flood_idle(), witnesses=W),
        mk('C15', 'cyclic_redispatch', S.cyclic_redispatch(), witnesses=W),
        mk('C15', 'idle_at_handler_end', S.idle_at_handler_end(), witnesses=W),
        mk('C15', 'errors/parent/TimeoutError/sync', dict(S.errors('TimeoutError', 'parent', sync=True),
                                                              main=[['root', 'A', 'P', 'P1'], ['root', 'A', 'L', 'L1'], ['idle', 'A'], ['obs_all', 'end']]), witnesses=W),
        mk('C15', 'child/await/unlimited_history', dict(S.child('await', k=1), max_history={'A': None}), witnesses=W),
        mk('C15', 'dispatch_then_block', S.dispatch_then_block(), witnesses=W),
        mk('C15', 'wal_unserialisable', S.wal_unserialisable()),
    ]
    if tier == 'thorough':
        out += [
            mk('C15', 'roots3', S.roots3(), witnesses=W),
            mk('C15', 'child/depth3', S.child('await', k=1, depth=3), witnesses=W, max_paths=6000),
            mk('C15', 'recur/ff', recur_idle('ff')),
            mk('C15', 'fw/chain3', S.forward_chain(3, topo='chain', second_event=True), witnesses=W, max_paths=6000),
            mk('C15', 'x2/other_running', S.two_bus_await('other_running', ('A', 'B')), witnesses=W, max_paths=6000),
        ]
    out += matrix_jobs('C15', 'm1', tier)
    out += matrix_jobs('C15', 'm2', tier)
    out += matrix_jobs('C15', 'm3', tier)
    out += matrix_jobs('C15', 'm4', tier)
    return flat(out)
