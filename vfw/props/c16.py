"""C16 — stop() and loop shutdown terminate the bus promptly."""
from __future__ import annotations

import asyncio

from .. import env
from ..base import Exact, is_sym, zand, znot, zor
from ..events import L, P
from ..oracles import Trace
from ..runner import Job

META = dict(
    explanation='stop(timeout in {None, 0, 1/2}) is called at a symbolic instant t_s (and, separately, at a symbolic loop-step index '
                'k, which reaches the points between two callbacks of the same instant) while the bus is idle, has a backlog, or has '
                'a handler mid-flight for a symbolic duration d up to 3 s; the time stop() takes is an SMT obligation '
                '(t_return - t_s <= timeout + 1.0, i.e. independent of d) and no handler may start after it returned. Shutdown: '
                'asyncio.run()\'s teardown is modelled by replicating asyncio.runners._cancel_all_tasks at a symbolic instant / '
                'step index: every task must be finished one virtual second after the cancellation.',
    assumptions=['asyncio.run() teardown = cancel every pending task, then wait for them (replica of runners._cancel_all_tasks)',
                 'the constant 1.0 s in C16.bounded is deliberately generous so that retuning the internal 0.1 s waits is not an alarm'],
    outside=['events dispatched after stop() returned (dispatch auto-restarts the bus by design)', 'stop() from another thread'],
)


def _mk(ctx, backlog, d):
    bus = ctx.bus('A')

    async def hC(h, ev):
        await h.sleep(d)
        return 'c'

    async def hP(h, ev):
        if ctx.cfg.get('await_child'):
            # the in-flight handler is processing an awaited child inline when stop() / the cancellation arrives
            from ..events import C
            ctx.on(bus, C, 'hC', hC) if 'hC' not in [n for (_, _, n, _) in ctx.registered] else None
            c = h.dispatch(bus, ctx.ev(C, 'C1', event_timeout=30.0))
            await h.wait(c)
            await h.sleep(Exact('1/5'))
            return 'p'
        if ctx.cfg.get('mode') == 'tie':
            # the handler ends exactly when stop()'s 0.1 s grace period does: both timers are created at the same instant t_s, in an
            # order that depends on the step offsets (jh for the handler, j for the stop), and fire in that order
            await h.sleep(ctx.vals_c16['t_s'])
            for _ in range(int(ctx.vals_c16['jh'])):
                await asyncio.sleep(0)
            await h.sleep(Exact(ctx.cfg.get('tie_after', '1/10')))
            return 'p'
        try:
            await h.sleep(d if not ctx.cfg.get('warm') else 5)
        finally:
            if ctx.cfg.get('slow_to_die'):
                # cleanup that itself takes (a lot of) time when the handler is cancelled
                await asyncio.sleep(3)
        return 'p'
    ctx.on(bus, P, 'hP', hP)
    ctx.on(bus, P, 'hP2', ret='p2')      # a second handler of the in-flight event: must not start after stop() returned
    ctx.on(bus, L, 'hL', ret='l')
    return bus


def t_stop(ctx):
    mode = ctx.cfg['mode']            # 'time' | 'step'
    timeout = ctx.cfg['timeout']      # None | '0' | '1/2'
    backlog = ctx.cfg.get('backlog', 1)
    clear = ctx.cfg.get('clear', False)
    d = ctx.real('d', 0, 3)
    tau = None if timeout is None else Exact(timeout)
    st = {}
    if mode == 'step':
        k = ctx.int('k', 1, ctx.cfg.get('kmax', 40))

        def hook(loop):
            if 'fired' not in st and k == loop.n_steps:
                st['fired'] = True
                st['task'] = loop.create_task(do_stop())
        ctx.step_hook = hook
    elif mode == 'tie':
        # the in-flight handler ends at the very instant stop()'s 0.1 s grace period does, and one timer of the run (index chosen by the
        # solver: among them the grace-period timer) is noticed up to 6 loop iterations late, as happens when iterations take time
        t_s = ctx.real('t_s', Exact('1/100'), 1)
        ctx.vals_c16 = dict(t_s=t_s, jh=ctx.int('jh', 0, 1), j=ctx.int('j', 0, 1))
        late_idx = int(ctx.int('late_idx', 0, ctx.cfg.get('max_idx', 14)))
        late_k = int(ctx.int('late_k', 1, 6))
    else:
        t_s = ctx.real('t_s', 0, 1)
    ctx.new_loop(horizon=12)
    if mode == 'tie':
        ctx.loop.late_timer = (late_idx, late_k)
    bus = _mk(ctx, backlog, d)

    async def do_stop():
        st['t_s'] = ctx.now()
        ctx.rec('STOPB', bus='A', running=bool(bus._is_running))
        await bus.stop(timeout=None if tau is None else float(tau), clear=clear)
        st['t_ret'] = ctx.now()
        ctx.rec('STOPE', bus='A')

    async def main():
        m = ctx.main
        m.dispatch(bus, ctx.ev(P, 'P1', event_timeout=30.0))
        for i in range(backlog):
            m.dispatch(bus, ctx.ev(L, f'L{i}', event_timeout=30.0))
        if mode == 'time':
            await asyncio.sleep(t_s)
            await do_stop()
        elif mode == 'tie':
            await asyncio.sleep(t_s)
            for _ in range(int(ctx.vals_c16['j'])):
                await asyncio.sleep(0)
            await do_stop()
        else:
            while 'task' not in st:
                await asyncio.sleep(Exact('1/100'))
                if ctx.now() > 2:
                    break
            if 'task' in st:
                await st['task']
        await asyncio.sleep(4)   # observation window after stop() returned
        ctx.rec('MAINEND')

    fin = ctx.run(main())
    tr = Trace(ctx.records)
    if mode == 'step' and 'task' not in st:
        ctx.witness('step index beyond the run')
        return
    ctx.check('C16.returns', 't_ret' in st, why='stop() still blocked at the virtual horizon')
    if 't_ret' in st:
        bound = (tau if tau is not None else 0) + 1
        ctx.check('C16.bounded', st['t_ret'] - st['t_s'] <= bound, timeout=str(tau))
        stope = next(r for r in tr.recs if r.kind == 'STOPE')
        late = [e for e in tr.E if e.bus == 'A' and e.seq > stope.seq]
        ctx.check('C16.no_start_after', not late, late=[e.h for e in late])
        stopb = next(r for r in tr.recs if r.kind == 'STOPB')
        running = [h for h in tr.Eh if tr.running(h, stopb.seq)]
        if running:
            ctx.witness('stop mid-handler')
        elif not tr.E or all(tr.X.get(e.h) is not None and tr.X[e.h].seq < stopb.seq for e in tr.E) and len(tr.E) == backlog + 1:
            ctx.witness('stop while idle')
        else:
            ctx.witness('stop with backlog')
    ctx.check('C16.main_finished', bool(fin))


def t_cancel(ctx):
    """asyncio.run() exit model: main returns leaving the bus running; _cancel_all_tasks replica."""
    mode = ctx.cfg['mode']
    d = ctx.real('d', 0, Exact('3/10'))
    st = {}
    if mode == 'step':
        k = ctx.int('k', 1, ctx.cfg.get('kmax', 40))

        def hook(loop):
            if ctx.cfg.get('warm'):
                if 'cancelled' not in st and 'arm' in st and k == loop.n_steps - st['arm']:
                    cancel_all(loop)
            elif 'cancelled' not in st and k == loop.n_steps:
                cancel_all(loop)
        ctx.step_hook = hook
    else:
        t_c = ctx.real('t_c', 0, Exact('1/2'))
    ctx.new_loop(horizon=12)
    loop = ctx.loop
    bus = _mk(ctx, 1, d)

    def cancel_all(loop_):
        # asyncio.runners._cancel_all_tasks: cancel everything that is still pending
        st['cancelled'] = [t for t in loop_._all_tasks if not t.done() and t is not st.get('watch')
                           and not getattr(t.get_coro(), '__qualname__', '').endswith('watch')]
        st['t_cancel'] = loop_.time()
        st['inside_get'] = bool(bus.event_queue is not None and bus.event_queue._getters)
        for t in st['cancelled']:
            t.cancel()
        ctx.rec('CANCEL', n=len(st['cancelled']))

    async def user_main():
        m = ctx.main
        if ctx.cfg.get('warm'):
            # the bus is already running and idle; the last thing main() does is dispatch
            m.dispatch(bus, ctx.ev(L, 'Lw', event_timeout=30.0))
            await bus.wait_until_idle()
            await asyncio.sleep(Exact('1/20'))
            st['arm'] = ctx.loop.n_steps
            m.dispatch(bus, ctx.ev(P, 'P1', event_timeout=None))
            await asyncio.sleep(10)
            return
        m.dispatch(bus, ctx.ev(P, 'P1', event_timeout=30.0))
        m.dispatch(bus, ctx.ev(L, 'L0', event_timeout=30.0))
        if mode == 'time':
            await asyncio.sleep(t_c)
        else:
            await asyncio.sleep(10)

    async def watch():
        st['watch'] = asyncio.current_task()
        um = loop.create_task(user_main())
        st['um'] = um
        if mode == 'time':
            await asyncio.wait({um})
            cancel_all(loop)
        else:
            while 'cancelled' not in st:
                await asyncio.sleep(Exact('1/100'))
                if ctx.now() > 2:
                    return
        await asyncio.sleep(1)        # one virtual second after the cancellation
        st['undone'] = sorted(getattr(t.get_coro(), '__qualname__', '?') for t in st['cancelled'] if not t.done())
        ctx.rec('MAINEND')

    fin = ctx.run(watch())
    if 'cancelled' not in st:
        ctx.witness('step index beyond the run')
        return
    ctx.witness('cancel inside queue polling' if st.get('inside_get') else 'cancel outside queue polling')
    ctx.check('C16.cancel_terminates', fin and not st.get('undone'), undone=st.get('undone'), inside_get=st.get('inside_get'))


async def _await(t):
    return await t


from ..scenlib import t_tree
TEMPLATES = {'s1.stop': t_stop, 's1.cancel': t_cancel, 'tree': t_tree}


def jobs(tier):
    out = []
    for timeout in (None, '0', '1/2'):
        out.append(Job('C16', 's1.stop', t_stop, dict(mode='time', timeout=timeout, backlog=1),
                       witnesses=('stop mid-handler',)))
    out.append(Job('C16', 's1.stop', t_stop, dict(mode='time', timeout=None, backlog=0, clear=True)))
    out.append(Job('C16', 's1.stop', t_stop, dict(mode='step', timeout=None, backlog=1, kmax=40 if tier == 'quick' else 80), max_paths=4000))
    out.append(Job('C16', 's1.cancel', t_cancel, dict(mode='time'), witnesses=('cancel inside queue polling',)))
    out.append(Job('C16', 's1.cancel', t_cancel, dict(mode='step', kmax=40 if tier == 'quick' else 80), max_paths=4000))
    out.append(Job('C16', 's1.cancel', t_cancel, dict(mode='step', warm=True, kmax=25), max_paths=4000))
    out.append(Job('C16', 's1.stop', t_stop, dict(mode='time', timeout=None, backlog=1, slow_to_die=True), witnesses=('stop mid-handler',)))
    out.append(Job('C16', 's1.stop', t_stop, dict(mode='tie', timeout=None, backlog=1), witnesses=('stop mid-handler',)))
    if tier == 'thorough':
        for cfg in (dict(timeout='1/2', backlog=1, tie_after='1/2'), dict(timeout='1/2', backlog=1, tie_after='3/5'), dict(timeout='0', backlog=1, tie_after='1/10'),
                    dict(timeout=None, backlog=2, tie_after='1/10')):
            out.append(Job('C16', 's1.stop', t_stop, dict(mode='tie', max_idx=30, **cfg), witnesses=('stop mid-handler',)))
    out.append(Job('C16', 's1.stop', t_stop, dict(mode='time', timeout=None, backlog=1, await_child=True), witnesses=('stop mid-handler',)))
    out.append(Job('C16', 's1.cancel', t_cancel, dict(mode='time', await_child=True)))
    from .. import scenlib as S
    from ._common import mk
    out += mk('C16', 'three_bus_stop', S.three_bus_stop(), witnesses=('stop returned',))
    out += mk('C16', 'fw_stop_source_with_timeout', S.fw_stop_source_with_timeout(), witnesses=('stop returned',))
    if tier == 'thorough':
        out.append(Job('C16', 's1.stop', t_stop, dict(mode='time', timeout='1/2', backlog=2, clear=True)))
        out.append(Job('C16', 's1.stop', t_stop, dict(mode='step', timeout='1/2', backlog=1, kmax=80), max_paths=6000))
        out.append(Job('C16', 's1.stop', t_stop, dict(mode='step', timeout='0', backlog=2, kmax=80), max_paths=6000))
    return out
