"""C17 — the write-ahead log has one faithful line per processed event (partially applicable)."""
from __future__ import annotations

import asyncio
import datetime
import json
import os
import tempfile

from .. import env
from ..base import Exact, is_sym
from ..events import C, L, P
from ..oracles import Trace
from ..runner import Job
from bubus import BaseEvent

META = dict(
    explanation='Buses with a WAL path run nested and forwarded scenarios (handler duration symbolic) with anyio.open_file replaced by '
                'an in-memory async file whose open() and write() each either succeed or raise OSError, chosen per call by a z3 '
                'enum (all fault sequences over <= 6 calls). Per region: one open attempt per processed event per bus, in the order '
                'in which the events\' handlers on that bus finished and after them; every written chunk is exactly one '
                'newline-terminated JSON object that json.loads and BaseEvent.model_validate_json accept with equal id, type, '
                'parent, path and (for the template\'s concrete payloads: nested containers, unicode, datetime, extra fields) '
                'payload; under every fault sequence events still complete, handlers run once and nothing escapes.',
    assumptions=['file I/O is a stub (anyio runs real files in worker threads); its contract: open/write succeed or raise OSError'],
    outside=['round-trip "for all payloads": model_dump_json is pydantic-core (compiled) and concretises symbolic payloads',
             'real file-system behaviour (partial writes, fsync, concurrent writers)'],
)


class PayloadEvent(BaseEvent):
    text: str = 'héllo wörld ✓   "quoted" \\ back'
    nested: dict = {'a': [1, 2, {'b': None}], 'ü': {'k': [True, 1.5]}}
    when: datetime.datetime = datetime.datetime(2024, 2, 29, 23, 59, 59, 123456, tzinfo=datetime.timezone.utc)
    items: list = [[], {}, 'x']
    maybe: int | None = 3          # set to None explicitly by the template: must come back as None, not as the default


def t_wal(ctx):
    svc = env.service
    topo = ctx.cfg.get('topo', 'nested')       # nested | forward
    faults = ctx.cfg.get('faults', True)
    d = ctx.real('d', 0, Exact('1/5'))
    teardown = ctx.cfg.get('teardown', False)
    io_d = ctx.real('io_d', 0, Exact('1/5')) if teardown else None     # file I/O takes time
    ctx.new_loop(horizon=5)
    tmp = os.path.join(tempfile.gettempdir(), 'vfw_wal')
    wal = {n: os.path.join(tmp, f'{n}.jsonl') for n in ('A', 'B')}
    bus_of_path = {v: k for k, v in wal.items()}
    ncall = [0]

    def choice(kind):
        i = ncall[0]
        ncall[0] += 1
        if not faults or i >= 6:
            return 'ok'
        e = ctx.enum(f'io{i}', ('ok', 'fail', 'fail_other'))
        return e.pick() if is_sym(e) else e

    class FakeFile:
        def __init__(self, path, encoding=None):
            self.path = str(path)
            self.encoding = encoding

        async def __aenter__(self):
            return self

        async def __aexit__(self, *a):
            return False

        async def write(self, s):
            if io_d is not None:
                await asyncio.sleep(io_d)
            if ctx.cfg.get('ascii_platform'):
                # a platform whose default text encoding is ASCII (LC_ALL=C, legacy code pages): only what the code asked for counts
                s.encode(self.encoding or 'ascii')
            o = choice('write')
            ctx.rec('WAL_WRITE', bus=bus_of_path.get(self.path), outcome=o, text=s)
            if o == 'fail':
                raise OSError('injected write failure')
            if o == 'fail_other':
                raise ValueError('injected non-OSError failure (e.g. encoding/serialisation)')
            return len(s)

    async def fake_open(path, mode='r', **kw):
        o = choice('open')
        ctx.rec('WAL_OPEN', bus=bus_of_path.get(str(path)), outcome=o, mode=mode)
        if o == 'fail':
            raise OSError('injected open failure')
        if o == 'fail_other':
            raise RuntimeError('injected non-OSError open failure')
        return FakeFile(path, kw.get('encoding'))

    saved = svc.anyio.open_file
    svc.anyio.open_file = fake_open
    try:
        a = ctx.bus('A', wal_path=wal['A'], **({'parallel_handlers': True} if topo == 'parallel' else {}))
        buses = {'A': a}
        if topo == 'forward':
            b = ctx.bus('B', wal_path=wal['B'])
            buses['B'] = b

        async def hP(h, ev):
            await h.sleep(d)
            c = h.dispatch(a, ctx.ev(C, 'C1', event_timeout=30.0))
            await h.wait(c)
            return 'p'
        ctx.on(a, P, 'hP', hP)
        ctx.on(a, C, 'hC', ret='c')
        if topo == 'parallel':
            async def hSlow(h, ev):
                await h.sleep(d)
                await h.sleep(Exact('1/10'))
                return 'slow'

            async def hBoom(h, ev):
                await h.sleep(Exact('1/20'))
                raise ValueError('handler boom')
            ctx.on(a, P, 'hSlow', hSlow)
            ctx.on(a, P, 'hBoom', hBoom)
        ctx.on(a, PayloadEvent, 'hPay', ret='pay')
        if topo == 'forward':
            ctx.on(b, P, 'hPB', ret='pb')
            ctx.on(b, C, 'hCB', ret='cb')
            ctx.on(b, PayloadEvent, 'hPayB', ret='payb')
            a.on('*', b.dispatch)
            ctx.forwards = [('A', 'B')]
        st = {}

        async def main():
            m = ctx.main
            p = m.dispatch(a, ctx.ev(P, 'P1', event_timeout=30.0))
            q = m.dispatch(a, ctx.ev(PayloadEvent, 'Q1', event_timeout=None, extra_field={'x': [1, 'ü']}, maybe=None, extra_none=None))
            if ctx.cfg.get('unserialisable'):
                u = m.dispatch(a, ctx.ev(PayloadEvent, 'U1', event_timeout=30.0, blob=object()))
            await m.wait(p)
            if teardown:
                # script-style use: `await bus.dispatch(e)` is the last thing main() does; asyncio.run() then cancels every other task
                st['complete_at_teardown'] = [lab for lab, e in ctx.events.items() if e.event_completed_signal is not None and e.event_completed_signal.is_set()]
                ctx.rec('TEARDOWN')
                me = asyncio.current_task()
                others = [t for t in asyncio.all_tasks() if t is not me]
                for t in others:
                    t.cancel()
                await asyncio.gather(*others, return_exceptions=True)
                st['done'] = True
                ctx.rec('MAINEND')
                return
            for n, bb in buses.items():
                await bb.wait_until_idle()
            await asyncio.sleep(Exact('1/2'))
            st['done'] = True
            ctx.rec('MAINEND')

        fin = ctx.run(main())
    finally:
        svc.anyio.open_file = saved
    tr = Trace(ctx.records)
    if teardown:
        # every event that was reported complete before the loop was torn down has its line (the line is written before completion)
        ctx.check('C17.terminates', bool(fin))
        for lab in st.get('complete_at_teardown', []):
            ws = [r for r in tr.recs if r.kind == 'WAL_WRITE' and r.bus == 'A' and r.outcome == 'ok'
                  and json.loads(r.text).get('event_id') == ctx.events[lab].event_id]
            ctx.check('C17.one_line_per_processed', len(ws) == 1, ev=lab, lines=len(ws), why='event reported complete, loop torn down, line missing')
            ctx.witness('complete at teardown')
        return
    ctx.check('C17.fault_isolated', bool(fin) and not tr.DX, why='main did not finish / a dispatch raised')
    for lab, e in ctx.events.items():
        s = ctx.snap(e)
        ctx.check('C17.fault_isolated', s['status'] == 'completed' and s['signal'] is True, ev=lab, got=(s['status'], s['signal']))
    for (bn, lab) in set(tr.accepted()):
        for name in ctx.expected(bn, lab):
            ctx.check('C17.fault_isolated', tr.count(bn, lab, name) == 1, ev=lab, handler=name)
    id2lab = {e.event_id: lab for lab, e in ctx.events.items()}
    for bn in buses:
        # finish order of events on this bus = order of the last handler exit per event
        last = {}
        for x in tr.recs:
            if x.kind == 'X' and x.bus == bn:
                last[x.ev] = x.seq
        finish = [lab for lab, _ in sorted(last.items(), key=lambda kv: kv[1])]
        opens = [r for r in tr.recs if r.kind == 'WAL_OPEN' and r.bus == bn]
        writes = [r for r in tr.recs if r.kind == 'WAL_WRITE' and r.bus == bn]
        if ctx.cfg.get('unserialisable'):
            # the event that cannot be serialised gets no line (and no open attempt); everything else is as usual
            finish = [l for l in finish if l != 'U1']
        ctx.check('C17.one_line_per_processed', len(opens) == len(finish), bus=bn, opens=len(opens), processed=finish)
        ctx.check('C17.append_mode', all(r.mode == 'a' for r in opens), bus=bn)
        if len(opens) != len(finish):
            continue
        wi = 0
        for i, (o, lab) in enumerate(zip(opens, finish)):
            ctx.check('C17.after_handlers', o.seq > last[lab], bus=bn, ev=lab)
            nxt = opens[i + 1].seq if i + 1 < len(opens) else tr.end
            mine = [w for w in writes if o.seq < w.seq < nxt]
            if o.outcome != 'ok':
                ctx.witness('failed open')
                ctx.check('C17.one_line_per_processed', not mine, bus=bn, ev=lab, why='write after failed open')
                continue
            ctx.check('C17.one_line_per_processed', len(mine) == 1, bus=bn, ev=lab, writes=len(mine))
            if len(mine) != 1:
                continue
            w = mine[0]
            if w.outcome != 'ok':
                ctx.witness('failed write')
            txt = w.text
            ok_shape = isinstance(txt, str) and txt.endswith('\n') and txt.count('\n') == 1
            ctx.check('C17.line_shape', ok_shape, bus=bn, ev=lab)
            if not ok_shape:
                continue
            try:
                obj = json.loads(txt)
                ev = ctx.events[lab]
                back = type(ev).model_validate_json(txt)
                same = (isinstance(obj, dict) and obj.get('event_id') == ev.event_id and back.event_id == ev.event_id
                        and back.event_type == ev.event_type and back.event_parent_id == ev.event_parent_id
                        and id2lab.get(obj.get('event_id')) == lab and 'event_results' not in obj)
                # path at the time of writing is a prefix of the final path containing this bus
                pth = list(back.event_path)
                same = same and pth == list(ev.event_path)[: len(pth)] and ctx.buses[bn].name in pth
                if isinstance(ev, PayloadEvent):
                    same = same and back.text == ev.text and back.nested == ev.nested and back.when == ev.when and back.items == ev.items \
                        and obj.get('extra_field') == {'x': [1, 'ü']} and back.maybe is None and back.event_timeout is None \
                        and 'extra_none' in obj and obj['extra_none'] is None
                    ctx.witness('payload round-trip')
                ctx.check('C17.line_faithful', same, bus=bn, ev=lab)
            except Exception as ex:  # noqa
                ctx.check('C17.line_faithful', False, bus=bn, ev=lab, exc=repr(ex)[:200])


class TypedEvent(BaseEvent[int | None]):
    """an event whose declared result type is a union (serialised into every WAL line as event_result_type)"""
    n: int = 1


def t_wal_fs(ctx):
    """A tiny model of the file system under the WAL: the log directory exists or not; mkdir() succeeds or fails (chosen per event
    through the solver) and the directory may be removed between two events (log rotation); open() fails with FileNotFoundError
    when the directory is missing.  An event whose directory creation is allowed to succeed and that meets no other fault gets
    its line — whatever happened to earlier events.  Events include one with a union result type."""
    svc = env.service
    n = 3
    m = [ctx.pick(f'mkdir{i}', ('ok', 'fail')) for i in range(n)]          # outcome of any mkdir call made for event i
    rm = [False] + [bool(ctx.pick(f'rm{i}', (0, 1))) for i in range(1, n)]     # directory removed before event i is dispatched
    ctx.new_loop(horizon=5)
    state = dict(dir=False, cur=0)

    class FakeDir:
        def mkdir(self, parents=False, exist_ok=False, mode=0o777):
            i = state['cur']
            ctx.rec('WAL_MKDIR', ev_index=i, outcome=m[i])
            if m[i] == 'fail':
                raise PermissionError('injected mkdir failure')
            if state['dir'] and not exist_ok:
                raise FileExistsError('log dir')
            state['dir'] = True

        def exists(self):
            return state['dir']

        is_dir = exists

    class FakePath:
        parent = FakeDir()

        def __fspath__(self):
            return '/vfw_wal_fs/logs/A.jsonl'

        __str__ = __fspath__

        def exists(self):
            return False

    class FakeFile:
        async def __aenter__(self):
            return self

        async def __aexit__(self, *a):
            return False

        async def write(self, s):
            ctx.rec('WAL_WRITE', ev_index=state['cur'], text=s)
            return len(s)

    async def fake_open(path, mode='r', **kw):
        ctx.rec('WAL_OPEN', ev_index=state['cur'], dir=state['dir'], mode=mode)
        if not state['dir']:
            raise FileNotFoundError(2, 'No such file or directory', str(path))
        return FakeFile()

    saved = svc.anyio.open_file
    svc.anyio.open_file = fake_open
    try:
        a = ctx.bus('A', wal_path='/vfw_wal_fs/logs/A.jsonl')
        a.wal_path = FakePath()
        ctx.on(a, P, 'hP', ret='p')
        ctx.on(a, TypedEvent, 'hT', ret=3)
        st = {}

        async def main():
            mm = ctx.main
            for i in range(n):
                if rm[i]:
                    state['dir'] = False
                    ctx.rec('WAL_RMDIR', before=i)
                state['cur'] = i
                e = mm.dispatch(a, ctx.ev(TypedEvent if i == 1 else P, f'E{i}', event_timeout=30.0))
                await mm.wait(e)
                await a.wait_until_idle()
            st['done'] = True
            ctx.rec('MAINEND')
        fin = ctx.run(main())
    finally:
        svc.anyio.open_file = saved
    tr = Trace(ctx.records)
    ctx.check('C17.fault_isolated', bool(fin) and not tr.DX, why='main did not finish / a dispatch raised')
    for i in range(n):
        lab = f'E{i}'
        sn = ctx.snap(ctx.events[lab])
        ctx.check('C17.fault_isolated', sn['status'] == 'completed' and sn['signal'] is True, ev=lab, got=(sn['status'], sn['signal']))
        ws = [r for r in tr.recs if r.kind == 'WAL_WRITE' and r.ev_index == i]
        if m[i] == 'ok':
            good = len(ws) == 1 and ws[0].text.endswith(chr(10)) and json.loads(ws[0].text).get('event_id') == ctx.events[lab].event_id
            ctx.check('C17.one_line_per_processed', good, ev=lab, lines=len(ws), mkdir=m, removed=rm,
                      why='the directory could be created for this event and nothing else failed, yet its line is missing')
            ctx.witness('line written')
            if good:
                back = type(ctx.events[lab]).model_validate_json(ws[0].text)
                ctx.check('C17.line_faithful', back.event_id == ctx.events[lab].event_id and back.event_type == ctx.events[lab].event_type, ev=lab)
        else:
            ctx.check('C17.one_line_per_processed', len(ws) <= 1, ev=lab, lines=len(ws))
            ctx.witness('mkdir failed')


from ..scenlib import t_tree
from .. import scenlib as S
from ._common import mk
TEMPLATES = {'s1.wal': t_wal, 's1.wal_fs': t_wal_fs, 'tree': t_tree}


def _with_wal(cfg, buses):
    cfg = dict(cfg)
    cfg['wal'] = list(buses)
    return cfg


def jobs(tier):
    out = [
        Job('C17', 's1.wal', t_wal, dict(topo='nested', faults=True), witnesses=('failed open', 'failed write', 'payload round-trip')),
        Job('C17', 's1.wal', t_wal, dict(topo='nested', faults=False), witnesses=('payload round-trip',)),
        Job('C17', 's1.wal', t_wal, dict(topo='forward', faults=False), witnesses=('payload round-trip',)),
        Job('C17', 's1.wal', t_wal, dict(topo='parallel', faults=False), witnesses=('payload round-trip',)),
        Job('C17', 's1.wal', t_wal, dict(topo='nested', faults=False, unserialisable=True), witnesses=('payload round-trip',)),
        Job('C17', 's1.wal', t_wal, dict(topo='nested', faults=False, teardown=True), witnesses=('complete at teardown',)),
        Job('C17', 's1.wal', t_wal, dict(topo='nested', faults=False, ascii_platform=True), witnesses=('payload round-trip',)),
        Job('C17', 's1.wal', t_wal, dict(topo='parallel', faults=False, teardown=True), witnesses=('complete at teardown',)),
    ]
    out.append(Job('C17', 's1.wal_fs', t_wal_fs, {}, witnesses=('line written', 'mkdir failed')))
    out += mk('C17', 'tree/handler_sends_own_event_to_wal_bus', S.handler_sends_own_event_to_wal_bus(), witnesses=('wal written',))
    out += mk('C17', 'tree/fw_late_await', _with_wal(S.fw_late_await(), ['A', 'B']), witnesses=('wal written',))
    out += mk('C17', 'tree/fw_chain3', _with_wal(S.forward_chain(3, topo='chain', second_event=True), ['A', 'B', 'C']), witnesses=('wal written',))
    out += mk('C17', 'tree/child_await', _with_wal(S.child('await', k=1), ['A']), witnesses=('wal written',))
    if tier == 'thorough':
        out.append(Job('C17', 's1.wal', t_wal, dict(topo='forward', faults=True), witnesses=('failed open', 'failed write')))
    return out
