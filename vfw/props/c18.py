"""C18 — expect() returns the first match and always unsubscribes."""
from __future__ import annotations

import asyncio

from .. import env
from ..base import Exact, is_sym, zand, zimplies, znot, zor
from ..runner import Job
from bubus import BaseEvent


class RQ(BaseEvent):
    p: object = None      # opaque payload slot: a z3 integer proxy passes through pydantic as Any


class OT(BaseEvent):
    p: object = None


class LegacyRQ(BaseEvent):
    event_type: str = 'rq_v1'      # class-level override of the type name
    p: object = None


META = dict(
    explanation='A stream of 3 events of the expected type (plus one of another type) with z3-integer payloads p_i is dispatched at '
                'symbolic instants; expect(type, include = p >= a, exclude = p >= b, timeout) with symbolic thresholds a, b is '
                'called at a symbolic instant t_e. A reference "first event, in recorded processing order, processed while the call '
                'was pending, with include and not exclude" is a z3 term over p_i, a, b and the instants; the returned event (or '
                'TimeoutError) must agree with it on every region (SMT obligation). Variants: raising deprecated predicate, two '
                'concurrent expects with overlapping filters, cancellation of the expecting task at a symbolic instant. In every '
                'outcome the handler registry must be as before and the other handler must have run once per event.',
    assumptions=['ties between an event\'s processing instant and the expiry of the expect timeout may resolve either way'],
    outside=['more than 3 candidate events', 'expect on a string pattern with wildcard'],
)

TAU = Exact('3/10')


def t_expect(ctx):
    variant = ctx.cfg.get('variant', 'basic')     # basic | predicate_raises | two | cancel
    pm = ctx.cfg.get('pmax', 3)
    P = [ctx.int(f'p{i}', 0, pm) for i in range(3)]
    a = ctx.int('a', 0, pm)
    b = ctx.int('b', 0, pm + 1)
    t0 = Exact(ctx.cfg['pin_t0']) if 'pin_t0' in ctx.cfg else ctx.real('t0', 0, Exact('2/5'))
    g1 = Exact(ctx.cfg['pin_g1']) if 'pin_g1' in ctx.cfg else ctx.real('g1', 0, Exact('1/5'))
    g2 = Exact(ctx.cfg.get('g2', '1/10'))
    t_e = ctx.real('t_e', 0, Exact('2/5')) if ctx.cfg.get('sym_te', True) else Exact(ctx.cfg.get('t_e', 0))
    c = ctx.int('c', 0, pm) if variant == 'predicate_raises' else None
    tcr = ctx.cfg.get('tc_range', ['0', '3/5'])
    t_c = ctx.real('t_c', Exact(tcr[0]), Exact(tcr[1])) if variant == 'cancel' else None
    late = None
    if ctx.cfg.get('tie'):
        # the cancellation (or, for variant basic, the time-out) arrives at the very instant a candidate event is dispatched, and one
        # timer of the run is noticed up to 4 loop iterations late
        late = (int(ctx.int('late_idx', 0, ctx.cfg.get('max_idx', 16))), int(ctx.int('late_k', 0, 4)))
        if variant == 'cancel':
            t_c = t0 - t_e if ctx.cfg['tie'] == 'first' else t0 + g1 - t_e
    a2 = ctx.int('a2', 0, pm) if variant == 'two' else None
    T_EV = Exact('1/5')
    dsr = ctx.cfg.get('ds_range', ['0', '2/5'])
    d_s = ctx.real('d_s', Exact(dsr[0]), Exact(dsr[1])) if variant == 'slow_timeout' else None
    RQcls = LegacyRQ if variant == 'override' else RQ
    d_z = ctx.real('d_z', 0, Exact('3/10')) if variant == 'blocked' else None
    t_clear = ctx.real('t_clear', 0, Exact('2/5')) if variant == 'clear_during' else None
    TAU = Exact(ctx.cfg['tau']) if 'tau' in ctx.cfg else globals()['TAU']      # 0 / negative: the poll idiom, an already expired deadline
    ctx.new_loop(horizon=5)
    loop = ctx.loop
    if late is not None and late[1] > 0:
        loop.late_timer = late
    bus = ctx.bus('A')
    seen = []    # (event, seq, time) in processing order
    idx_of = {}

    def mon(ev):
        r = ctx.rec('PROC', idx=idx_of[ev.event_id])
        seen.append((ev, r.seq, r.t))
        return 'mon'
    mon.__name__ = 'mon'
    bus.on(RQ, mon)
    bus.on(OT, mon)
    if variant == 'override':
        bus.on('rq_v1', mon)
    if variant == 'slow_timeout':
        async def slow(ev):
            await asyncio.sleep(d_s)
            return 'slow'
        bus.on(RQ, slow)
    res = {}
    evs = []
    if variant == 'blocked':
        zbus = ctx.bus('Z')

        async def zslow(ev):
            await asyncio.sleep(d_z)
            return 'z'
        zbus.on(OT, zslow)

    async def disp():
        await asyncio.sleep(t0)
        for i in range(3):
            if res.get('stopping'):
                break             # nothing is dispatched to a stopped bus (dispatch after stop() is a different matter, see DESIGN F19)
            e = RQcls(p=P[i], event_timeout=float(T_EV) if variant == 'slow_timeout' else 30.0)
            idx_of[e.event_id] = i
            evs.append(e)
            ctx.adopt(e, f'R{i}')
            try:
                bus.dispatch(e)
            except Exception:
                if variant != 'clear_during':
                    raise
                continue          # the bus was stopped meanwhile
            if i == 0:
                o = OT(p=3, event_timeout=30.0)
                idx_of[o.event_id] = 'o'
                ctx.adopt(o, 'O')
                try:
                    bus.dispatch(o)
                except Exception:
                    if variant != 'clear_during':
                        raise
                await asyncio.sleep(g1)
            elif i == 1:
                await asyncio.sleep(g2)

    def registry():
        return {k: list(v) for k, v in bus.handlers.items() if v}

    async def one_expect(tag, lo, hi):
        def pred(e):
            if c is not None and e.p == c:
                raise ValueError('predicate boom')
            return True
        kw = dict(include=lambda e: e.p >= lo, exclude=lambda e: e.p >= hi, timeout=float(TAU))
        if variant == 'predicate_raises':
            kw['predicate'] = pred
        r = ctx.rec('EXP_CALL', tag=tag)
        res[tag] = dict(call_seq=r.seq, call_t=r.t)
        try:
            ev = await bus.expect(RQcls, **kw)
            res[tag]['got'] = ev
        except TimeoutError:
            res[tag]['got'] = 'timeout'
        except Exception as ex:  # noqa
            res[tag]['got'] = ex
        except asyncio.CancelledError:
            res[tag]['got'] = 'cancelled'
            raise
        finally:
            res[tag]['end_t'] = loop.time()
            res[tag]['registry_after'] = registry()

    async def main():
        reg0 = registry()
        res['reg0'] = reg0
        if ctx.cfg.get('warn_error'):
            # the application runs with warnings promoted to errors (-W error / pytest filterwarnings = error)
            import warnings
            warnings.simplefilter('error')
        if variant == 'blocked':
            zbus.dispatch(OT(p=0, event_timeout=30.0))     # Z's handler holds the global lock for d_z
            await asyncio.sleep(0)
        dt = asyncio.ensure_future(disp())
        await asyncio.sleep(t_e)
        ts = [asyncio.ensure_future(one_expect('e1', a, b))]
        if variant == 'two':
            ts.append(asyncio.ensure_future(one_expect('e2', a2, pm + 1)))
        if variant == 'clear_during':
            # the bus is stopped and cleared while the expect() call is pending
            await asyncio.sleep(t_clear)
            res['cleared_while_pending'] = not ts[0].done()
            res['stopping'] = True
            await bus.stop(clear=True)
        if variant == 'cancel':
            await asyncio.sleep(t_c)
            res['cancel_done_before'] = ts[0].done()
            ts[0].cancel()
        await asyncio.gather(*ts, return_exceptions=True)
        await dt
        await asyncio.sleep(1)
        res['reg_end'] = registry()
        ctx.rec('MAINEND')

    fin = ctx.run(main())
    ctx.check('C18.terminates', bool(fin))
    if not fin:
        return
    if variant == 'clear_during':
        # after stop(clear=True) nothing is delivered any more: the only legitimate outcomes are a match found before, or TimeoutError
        got = res['e1']['got']
        ctx.check('C18.outcome_kind', got == 'timeout' or isinstance(got, RQ), got=repr(got)[:80], why='expect() ended with something other than a match or TimeoutError')
        ctx.check('C18.unsubscribed', not any('expect(' in getattr(h, '__name__', '') for hs in bus.handlers.values() for h in hs), why='temporary handler left behind')
        ctx.witness('timeout' if got == 'timeout' else 'match')
        if res.get('cleared_while_pending'):
            ctx.witness('cleared while pending')
        return
    # ---- others unaffected: mon ran exactly once per dispatched event
    idxs = [idx_of[e.event_id] for (e, _, _) in seen]
    ctx.check('C18.others_unaffected', sorted(map(str, idxs)) == ['0', '1', '2', 'o'], seen=list(map(str, idxs)))
    # ... and the temporary subscription never leaves an error behind on an event (e.g. when it is called after expect() ended)
    stale = [(idx_of.get(e.event_id), type(r.error).__name__) for e in evs for r in e.event_results.values()
             if 'expect' in (r.handler_name or '') and r.error is not None
             and not (isinstance(r.error, ValueError) and 'predicate boom' in str(r.error))]     # (the caller's own raising predicate is the caller's business)
    ctx.check('C18.others_unaffected', not stale, stale=stale, why='the temporary expect() handler failed on an in-flight event')
    if variant == 'override':
        # on this tree a class with an overridden event_type is registered under its class name, so expect() simply times out;
        # what must hold in any case is the clean-up and that nothing non-matching is returned
        for tag in ('e1',):
            got = res[tag]['got']
            ctx.check('C18.never_nonmatching', got in ('timeout', 'cancelled') or isinstance(got, LegacyRQ), tag=tag)
            ctx.check('C18.unsubscribed', res[tag]['registry_after'] == res['reg0'], tag=tag, why='temporary handler still registered when expect() ended')
            ctx.witness('timeout' if got == 'timeout' else 'match')
        return
    ctx.check('C18.unsubscribed', res['reg_end'] == res['reg0'], why='handler registry differs after all expect() calls ended')
    for tag, lo, hi in (('e1', a, b), ('e2', a2, pm + 1)):
        if tag not in res:
            continue
        r = res[tag]
        ctx.check('C18.unsubscribed', r['registry_after'] == res['reg0'] or variant == 'two', tag=tag, why='temporary handler still registered when expect() ended')
        got = r['got']
        deadline = r['call_t'] + (TAU if TAU > 0 else 0)
        # reference over the recorded processing order
        cands = [(e, seq, t) for (e, seq, t) in seen if isinstance(e, RQ)]
        from ..base import zite
        lag = zite(d_s < T_EV, d_s, T_EV) if d_s is not None else 0   # the notify handler runs after the slow handler ended / timed out
        def cond(e, seq, t, strict):
            if seq < r['call_seq']:
                return False
            inwin = (t + lag < deadline) if strict else (t <= deadline)
            ok = zand(e.p >= lo, znot(e.p >= hi), inwin)
            if c is not None:
                ok = zand(ok, znot(e.p == c))
            return ok
        if got == 'cancelled':
            ctx.witness('cancelled')
            continue
        if isinstance(got, Exception):
            # the call itself was refused (e.g. a duplicate-handler-name warning promoted to an error): nothing to match, but the
            # registry clauses above still apply
            ctx.witness('expect raised')
            continue
        if got == 'timeout':
            ctx.witness('timeout')
            ctx.check('C18.first_match', znot(zor(*[cond(e, s, t, True) for (e, s, t) in cands])) if cands else True, tag=tag, got='timeout')
            ctx.check('C18.timeout_instant', r['end_t'] == deadline, tag=tag)
        else:
            ctx.witness('match')
            ctx.check('C18.never_nonmatching', isinstance(got, RQ) and zand(got.p >= lo, znot(got.p >= hi)), tag=tag)
            gi = [i for i, (e, s, t) in enumerate(cands) if e is got]
            ctx.check('C18.returned_is_processed_event', len(gi) == 1, tag=tag)
            if len(gi) == 1:
                g = gi[0]
                ctx.check('C18.first_match', zand(cond(*cands[g], False), *[znot(cond(*cands[j], True)) for j in range(g)]), tag=tag, got=g)
    if variant == 'cancel' and res.get('cancel_done_before'):
        ctx.witness('finished before cancel')


from ..scenlib import t_tree
from .. import scenlib as S
from ._common import mk
TEMPLATES = {'s1.expect': t_expect, 'tree': t_tree}


def _split(cfg, n_te, n_t0, **kw):
    out = []
    for i in range(n_te):
        out.append(Job('C18', 's1.expect', t_expect, dict(cfg), **kw))
    return out


def jobs(tier):
    out = []
    W = ('match', 'timeout')
    if tier == 'quick':
        out.append(Job('C18', 's1.expect', t_expect, dict(variant='basic', sym_te=False, t_e='0'), witnesses=W))
        out.append(Job('C18', 's1.expect', t_expect, dict(variant='basic', sym_te=False, t_e='1/4'), witnesses=W))
        out.append(Job('C18', 's1.expect', t_expect, dict(variant='predicate_raises', sym_te=False, t_e='0'), witnesses=W))
        out.append(Job('C18', 's1.expect', t_expect, dict(variant='two', sym_te=False, t_e='0', pmax=2), witnesses=W))
        for rng in (['0', '1/20'], ['1/20', '1/10'], ['1/10', '1/5'], ['1/5', '3/10'], ['3/10', '2/5']):
            out.append(Job('C18', 's1.expect', t_expect, dict(variant='slow_timeout', sym_te=False, t_e='0', pmax=1, ds_range=rng)))
        out.append(Job('C18', 's1.expect', t_expect, dict(variant='override', sym_te=False, t_e='0', pmax=1)))
        out.append(Job('C18', 's1.expect', t_expect, dict(variant='two', sym_te=False, t_e='0', pmax=0, warn_error=True, pin_g1='1/10')))
        out.append(Job('C18', 's1.expect', t_expect, dict(variant='cancel', sym_te=False, t_e='0', pmax=0, tie='first', pin_g1='1/10')))
        for tau in ('0', '-1/10'):
            out.append(Job('C18', 's1.expect', t_expect, dict(variant='basic', sym_te=True, pmax=0, tau=tau, pin_g1='1/10'), witnesses=('timeout',)))
        out.append(Job('C18', 's1.expect', t_expect, dict(variant='clear_during', sym_te=False, t_e='0', pmax=0), witnesses=('cleared while pending',)))
        out.append(Job('C18', 's1.expect', t_expect, dict(variant='blocked', sym_te=True, pmax=0, pin_t0='1/50', pin_g1='1/10'), witnesses=W))
        for rng in (['0', '3/20'], ['3/20', '3/10'], ['3/10', '9/20'], ['9/20', '3/5']):
            out.append(Job('C18', 's1.expect', t_expect, dict(variant='cancel', sym_te=False, t_e='0', pmax=1, tc_range=rng)))
    else:
        for tau in ('0', '-1/10'):
            out.append(Job('C18', 's1.expect', t_expect, dict(variant='basic', sym_te=True, pmax=1, tau=tau), witnesses=('timeout',)))
        out.append(Job('C18', 's1.expect', t_expect, dict(variant='cancel', sym_te=False, t_e='0', pmax=0, tie='second', pin_g1='1/10')))
        out.append(Job('C18', 's1.expect', t_expect, dict(variant='basic', sym_te=False, t_e='0', pmax=0, tie='first', pin_t0='3/10', pin_g1='1/10')))
        for v in ('basic', 'predicate_raises', 'two', 'cancel', 'slow_timeout', 'override', 'clear_during', 'blocked'):
            out.append(Job('C18', 's1.expect', t_expect, dict(variant=v, sym_te=True), max_paths=20000))
            for te in ('0', '1/10', '1/4', '2/5'):
                out.append(Job('C18', 's1.expect', t_expect, dict(variant=v, sym_te=False, t_e=te), max_paths=20000))
    out += mk('C18', 'expect_leaf_of_nested_chain', S.expect_leaf_of_nested_chain(), witnesses=('expect matched',))
    out += mk('C18', 'expects_then_late_handler', S.expects_then_late_handler())
    return out
