"""C19 — @retry makes the promised attempts with the promised waits."""
from __future__ import annotations

import asyncio

from .. import env
from ..base import Exact, is_sym, zand, zimplies, zite, znot, zor
from ..runner import Job

META = dict(
    explanation='The real helpers.retry wrapper / _execute_with_retries executed on the virtual loop with retries r chosen through '
                'the solver, per-attempt outcome (return / listed exception / unlisted exception) as z3 enums, per-attempt '
                'durations and the wait as z3 reals; attempt count, result identity, exact wait arithmetic (wait*bf**k), the '
                'per-attempt cut-off instant and cancellation are clauses/obligations per region.',
    assumptions=['backoff_factor concrete in {1, 2, 1/2} (symbolic backoff would be non-linear)', 'per-attempt timeout concrete (1 s)'],
    outside=['float rounding of wait*backoff**k', 'retries > 3', 'semaphores (C20)'],
)

TO = 1


class Boom(Exception):
    pass


class Other(Exception):
    pass


class SubBoom(Boom):
    """a subclass of a listed exception class is listed too (retry_on is an isinstance test)"""


RETRY_ON = {'none': None, 'boom': (Boom,), 'boom+timeout': (Boom, TimeoutError), 'empty': ()}


def t_retry(ctx):
    helpers = env.helpers
    rmax = ctx.cfg['rmax']
    r = int(ctx.int('r', ctx.cfg.get('rmin', 0), rmax))
    bf = ctx.cfg['bf']
    bfv = {'1': 1.0, '2': 2.0, '1/2': 0.5}[bf]
    bfx = Exact(bf)
    retry_on = RETRY_ON[ctx.cfg['retry_on']]
    cancel = ctx.cfg.get('cancel', False)
    wait = ctx.real('w', 0, 3)
    durs = [ctx.real(f'd{i}', 0, 2 * TO) for i in range(r + 1)]
    outs = [ctx.enum(f'o{i}', ('return', 'listed', 'unlisted')) for i in range(r + 1)]
    t_c = ctx.real('t_c', 0, 4) if cancel else None
    ctx.new_loop(horizon=80)
    loop = ctx.loop
    calls = []   # dicts: start, end, how, exc
    res = {}

    queued = ctx.cfg.get('queued', False)     # the call first has to queue for a one-slot semaphore held by another call
    d_h = ctx.real('d_h', 0, 3) if queued else None
    lax = bool(ctx.flag('lax')) if queued else True
    skw = dict(semaphore_limit=1, semaphore_name='C19S', semaphore_scope='global', semaphore_timeout=10.0, semaphore_lax=lax) if queued else {}

    @helpers.retry(wait=0, retries=0, timeout=20, **skw)
    async def holder():
        await asyncio.sleep(d_h)
        return 'held'

    @helpers.retry(wait=wait, retries=r, timeout=TO, retry_on=retry_on, backoff_factor=bfv, **skw)
    async def f():
        i = len(calls)
        c = dict(i=i, start=loop.time(), end=None, how=None, exc=None)
        calls.append(c)
        ctx.rec('CALL', i=i)
        if i > r:
            c['how'] = 'extra'
            return ('extra', i)
        try:
            await asyncio.sleep(durs[i])
            o = outs[i]
            if o == 'return':
                c['how'] = 'return'
                return ('ok', i)
            if o == 'listed':
                c['how'] = 'listed'
                c['exc'] = (SubBoom if ctx.cfg.get('sub') else Boom)(i)
                raise c['exc']
            c['how'] = 'unlisted'
            c['exc'] = Other(i)
            raise c['exc']
        except asyncio.CancelledError:
            c['how'] = 'cancelled'
            raise
        finally:
            c['end'] = loop.time()

    async def main():
        if cancel:
            if queued:
                ht = asyncio.ensure_future(holder())
                await asyncio.sleep(0)
            t = asyncio.ensure_future(f())
            await asyncio.sleep(t_c)
            res['cancel_at'] = loop.time()
            res['done_before_cancel'] = t.done()
            t.cancel()
            try:
                res['ret'] = await t
            except BaseException as e:  # noqa
                res['exc'] = e
            res['end'] = loop.time()
            # give a swallowed cancellation the chance to show further attempts
            await asyncio.sleep(30)
        else:
            try:
                res['ret'] = await f()
            except BaseException as e:  # noqa
                res['exc'] = e
            res['end'] = loop.time()

    ok = ctx.run(main())
    ctx.check('C19.terminates', ok)
    if not ok:
        return
    ctx.check('C19.max_attempts', len(calls) <= r + 1, calls=len(calls), r=r)
    n = len(calls)
    # ---- wait arithmetic and cut-off instants (obligations over the region)
    for k, c in enumerate(calls[: r + 1]):
        if c['how'] == 'cancelled' and not cancel:
            ctx.witness('cut-off')
            ctx.check('C19.cutoff', c['end'] == c['start'] + TO, attempt=k)
        elif c['how'] in ('return', 'listed', 'unlisted'):
            ctx.check('C19.cutoff', c['end'] - c['start'] <= TO, attempt=k, why='attempt outlived its timeout')
        if k + 1 < n and c['end'] is not None:
            gap = calls[k + 1]['start'] - c['end']
            ctx.check('C19.wait_exact', gap == wait * (bfx ** k), attempt=k)
            ctx.witness('retried')
    if cancel:
        if res.get('done_before_cancel'):
            ctx.witness('finished before cancel')
            return
        ctx.witness('cancelled in flight')
        if queued and not calls:
            ctx.witness('cancelled while queued for the slot')
        ctx.check('C19.cancel_not_swallowed', isinstance(res.get('exc'), asyncio.CancelledError), got=repr(res.get('exc', res.get('ret'))))
        ctx.check('C19.cancel_prompt', res['end'] == res['cancel_at'])
        late = [c for c in calls if bool(c['start'] > res['cancel_at'])]
        ctx.check('C19.no_attempt_after_cancel', not late, late=len(late))
        return
    # ---- reference for the non-cancelled run (all inputs decided on this path)
    k = 0
    exp = None
    while True:
        cut = not bool(durs[k] < TO)
        o = outs[k]
        if not cut and bool(o == 'return'):
            exp = ('ret', k)
            break
        kind = TimeoutError if cut else (Boom if bool(o == 'listed') else Other)
        if retry_on is not None and not issubclass(kind, retry_on):
            exp = ('raise', k, kind)
            break
        if k == r:
            exp = ('raise', k, kind)
            break
        k += 1
    ctx.check('C19.attempt_count', n == exp[1] + 1, calls=n, expected=exp[1] + 1, exp=str(exp))
    if exp[0] == 'ret':
        ctx.witness('success')
        if exp[1] > 0:
            ctx.witness('success after failures')
        ctx.check('C19.first_success_returns', res.get('ret') == ('ok', exp[1]), got=repr(res.get('ret', res.get('exc'))))
    else:
        e = res.get('exc')
        kind = exp[2]
        if kind is TimeoutError:
            ctx.check('C19.exception_propagates', isinstance(e, TimeoutError), got=repr(e), exp=str(exp))
        else:
            want = calls[exp[1]]['exc'] if exp[1] < n else None
            ctx.check('C19.exception_propagates', e is want and e is not None, got=repr(e), exp=str(exp))
        if exp[1] == r:
            ctx.witness('exhausted')
        else:
            ctx.witness('unlisted propagated early')


TEMPLATES = {'r.retry': t_retry}


def jobs(tier):
    out = []
    if tier == 'quick':
        out.append(Job('C19', 'r.retry', t_retry, dict(rmax=2, bf='2', retry_on='boom+timeout'),
                       witnesses=('success after failures', 'exhausted', 'unlisted propagated early', 'cut-off', 'retried')))
        out.append(Job('C19', 'r.retry', t_retry, dict(rmax=1, bf='1/2', retry_on='none'), witnesses=('retried',)))
        out.append(Job('C19', 'r.retry', t_retry, dict(rmax=2, bf='1', retry_on='boom'), witnesses=('retried',)))
        out.append(Job('C19', 'r.retry', t_retry, dict(rmax=1, bf='1', retry_on='empty')))
        out.append(Job('C19', 'r.retry', t_retry, dict(rmax=1, bf='1', retry_on='boom', sub=True), witnesses=('retried',)))
        out.append(Job('C19', 'r.retry', t_retry, dict(rmin=0, rmax=0, bf='1', retry_on='none', cancel=True, queued=True), witnesses=('cancelled while queued for the slot',)))
        out.append(Job('C19', 'r.retry', t_retry, dict(rmax=1, bf='2', retry_on='boom+timeout', cancel=True),
                       witnesses=('cancelled in flight', 'finished before cancel')))
    else:
        for bf in ('1', '2', '1/2'):
            for ro in RETRY_ON:
                for r in range(0, 4):
                    out.append(Job('C19', 'r.retry', t_retry, dict(rmin=r, rmax=r, bf=bf, retry_on=ro), max_paths=20000))
        for ro in RETRY_ON:
            for r in (0, 1, 2):
                out.append(Job('C19', 'r.retry', t_retry, dict(rmin=r, rmax=r, bf='2', retry_on=ro, cancel=True), max_paths=20000))
        out.append(Job('C19', 'r.retry', t_retry, dict(rmin=1, rmax=2, bf='1', retry_on='boom+timeout', sub=True), witnesses=('retried',), max_paths=20000))
        out.append(Job('C19', 'r.retry', t_retry, dict(rmin=0, rmax=1, bf='2', retry_on='boom', cancel=True, queued=True), witnesses=('cancelled while queued for the slot',), max_paths=20000))
    return out
