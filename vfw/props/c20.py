"""C20 — @retry semaphores bound concurrency and are always released."""
from __future__ import annotations

import asyncio

from .. import env
from ..base import Exact, is_sym, zand, zimplies, zite, znot, zor
from ..runner import Job
from ..vloop import VLoop

META = dict(
    explanation='The real helpers.retry wrapper with semaphore_limit executed on the virtual loop: callers start at symbolic '
                'instants, bodies last symbolic durations, outcomes (return/raise/attempt time-out) and one cancellation instant '
                'are symbolic; concurrency per scope, the lax/non-lax acquisition time-out boundary (as SMT obligations on '
                'instants), scope independence and a black-box capacity probe after quiescence are checked per region.',
    assumptions=['per-attempt timeout concrete (1 s), retries=0', 'scope keys: the harness labels scopes itself (name / class / instance)'],
    outside=["semaphore_scope='multiprocess' (portalocker file locks and threads: not encodable)", 'more than 3 concurrent callers + probe'],
)

TO = 1


def _sem_timeout(st, L):
    if st is None:
        return max(Exact(TO), Exact(TO) * (L - 1))
    st = Exact(st)
    return Exact('1/100') if st == 0 else st


def t_sem(ctx):
    helpers = env.helpers
    L = ctx.cfg['L']
    n = ctx.cfg['n']
    scope = ctx.cfg.get('scope', 'global')
    st_cfg = ctx.cfg.get('sem_timeout', None)
    lax = ctx.flag('lax')
    cancel = ctx.cfg.get('cancel', None)  # index of the caller to cancel
    raising = ctx.cfg.get('raising', True)
    semT = _sem_timeout(st_cfg, L)
    hi = Exact('3/2')
    starts = [Exact(0)] + [(Exact(ctx.cfg['pin_s1']) if (i == 1 and 'pin_s1' in ctx.cfg) else ctx.real(f's{i}', 0, 2)) for i in range(1, n)]
    nd = ctx.cfg.get('nd', 2)
    durs = [ctx.real(f'd{i}', 0, hi) if i < nd else Exact('1/4') for i in range(n)]
    outs = [ctx.enum(f'o{i}', ('return', 'raise')) if raising and i < 2 else 'return' for i in range(n)]
    t_c = ctx.real('t_c', 0, 3) if cancel is not None else None
    pdur = min(Exact('1/10'), semT / 2)   # probe body shorter than the acquisition time-out
    ctx.new_loop(horizon=30)
    loop = ctx.loop
    kw = dict(wait=float(Exact(ctx.cfg.get('wait', '0'))), retries=int(ctx.cfg.get('retries', 0)), timeout=TO, semaphore_limit=L, semaphore_lax=lax,
              semaphore_timeout=None if st_cfg is None else float(Exact(st_cfg)))

    class Boom(Exception):
        pass

    async def body(i, d, o, key):
        ctx.rec('BE', i=i, key=key)
        try:
            await asyncio.sleep(d)
            if o == 'raise':
                raise Boom(i)
            return ('ok', i)
        finally:
            ctx.rec('BX', i=i, key=key)

    # ---- scope set-ups: fn(i) -> (callable, harness scope label)
    if scope == 'global':
        @helpers.retry(semaphore_name='S', semaphore_scope='global', **kw)
        async def g(cid, d, o):
            return await body(cid, d, o, 'S')

        def call(i, cid, d, o):
            return g(cid, d, o), 'S'
    elif scope == 'two_names':
        @helpers.retry(semaphore_name='SA', semaphore_scope='global', **kw)
        async def ga(cid, d, o):
            return await body(cid, d, o, 'SA')

        @helpers.retry(semaphore_name='SB', semaphore_scope='global', **kw)
        async def gb(cid, d, o):
            return await body(cid, d, o, 'SB')

        def call(i, cid, d, o):
            return (ga(cid, d, o), 'SA') if i != n - 1 else (gb(cid, d, o), 'SB')
    else:
        class K1:
            if ctx.cfg.get('falsy'):
                def __len__(self):       # a container-like owner that is currently empty: bool(instance) is False
                    return 0

            @helpers.retry(semaphore_scope=scope, **kw)
            async def m(self, cid, d, o):
                return await body(cid, d, o, self.key)

        class K2(K1):
            pass
        if scope == 'class':
            K2.__name__ = 'K2'
            objs = [K1(), K1(), K2()]
            for ob in objs:
                ob.key = type(ob).__name__
        else:
            a = K1()
            b = K1()
            a.key, b.key = 'inst_a', 'inst_b'
            objs = [a, a, b]

        def call(i, cid, d, o):
            ob = objs[i] if i < n - 1 else objs[2]
            return ob.m(cid, d, o), ob.key

    info = {}

    async def caller(i, start, d, o, tag=''):
        if i > 0 or tag:
            await asyncio.sleep(start)
        coro, key = call(i, f'{tag}{i}', d, o)
        me = dict(i=f'{tag}{i}', key=key, call=loop.time(), end=None, res=None)
        info[me['i']] = me
        ctx.rec('CALL', i=me['i'], key=key)
        try:
            me['res'] = ('ret', await coro)
        except asyncio.CancelledError:
            me['res'] = ('cancelled', None)
            raise
        except BaseException as e:  # noqa
            me['res'] = ('exc', e)
        finally:
            me['end'] = loop.time()
            ctx.rec('END', i=me['i'], key=key, how=me['res'][0] if me['res'] else None)

    async def main():
        ts = [asyncio.ensure_future(caller(i, starts[i], durs[i], outs[i])) for i in range(n)]
        if cancel is not None:
            await asyncio.sleep(t_c)
            info['cancel_at'] = loop.time()
            info['cancel_done_before'] = ts[cancel].done()
            ts[cancel].cancel()
        await asyncio.gather(*ts, return_exceptions=True)
        # ---- black-box capacity probe after quiescence (scope of caller 0)
        info['probe_at'] = loop.time()
        ps = [asyncio.ensure_future(caller(0, 0, pdur, 'return', tag=f'p{j}_')) for j in range(L + 1)]
        await asyncio.gather(*ps, return_exceptions=True)

    ok = ctx.run(main())
    ctx.check('C20.terminates', ok)
    if not ok:
        return
    recs = ctx.records
    # ---- concurrency per scope from records
    inprog = {}
    holders = {}     # per scope: callers that entered while fewer than L slot holders were in progress (they own a slot)
    entered = {}
    retrying = int(ctx.cfg.get('retries', 0)) > 0     # a retried caller keeps its slot from its first entry until the whole call ends
    lax_entrants = set()
    for r in recs:
        if r.kind == 'BE':
            cur = inprog.setdefault(r.key, [])
            hold = holders.setdefault(r.key, [])
            me = info[r.i]
            if retrying and (r.i in hold or r.i in lax_entrants):
                cur.append(r.i)          # a further attempt of a caller that is already inside
                continue
            if retrying and len(hold) >= L and len([x for x in cur if x not in lax_entrants]) < L:
                # the slot owner is between two attempts (back-off): nothing of that scope is executing, so entering now does not
                # exceed "L executing at once" whichever way the implementation treats the slot during the back-off
                lax_entrants.add(r.i)
                cur.append(r.i)
                entered.setdefault(r.i, r)
                continue
            if len(hold) >= L:
                lax_entrants.add(r.i)
                ctx.witness('limit exceeded (lax)')
                # documented exception only: lax and the caller waited the full acquisition time-out; it owns no slot
                ctx.check('C20.limit', zand(lax, r.t == me['call'] + semT), caller=r.i, inprog=list(cur), holders=list(hold))
            elif bool(zand(lax, r.t == me['call'] + semT)) and any(x.kind == 'BX' and x.key == r.key and x.t == r.t for x in recs if x.seq < r.seq):
                # tie: a slot was released at the very instant this caller's acquisition timed out; whether it got the slot or
                # went on without one (lax) cannot be told from outside, so it is not counted as a slot holder
                ctx.witness('release/time-out tie')
            else:
                hold.append(r.i)
            cur.append(r.i)
            entered.setdefault(r.i, r)      # (a retried caller enters the body again: its first entry is the acquisition)
        elif r.kind == 'BX':
            inprog[r.key].remove(r.i)
            if not retrying and r.i in holders.get(r.key, []):
                holders[r.key].remove(r.i)
        elif r.kind == 'END' and retrying:
            if r.i in holders.get(r.key, []):
                holders[r.key].remove(r.i)
            lax_entrants.discard(r.i)
    # ---- per caller
    for cid, me in info.items():
        if not isinstance(me, dict) or 'call' not in me:
            continue
        be = entered.get(cid)
        how = me['res'][0] if me['res'] else None
        if how == 'exc' and isinstance(me['res'][1], TimeoutError) and be is None:
            ctx.witness('non-lax acquisition time-out')
            ctx.check('C20.nonlax_timeout', zand(znot(lax), me['end'] == me['call'] + semT), caller=cid)
        elif how == 'exc' and be is None:
            ctx.check('C20.no_other_failure', False, caller=cid, exc=repr(me['res'][1]))
        if be is not None:
            # scopes independent / no leak: a caller that found its scope below the limit (by records) enters at once
            others = [x for x in recs if x.kind in ('BE', 'BX') and x.key == me['key'] and x.seq < be.seq]
            cnt_at_call = 0
            callseq = next(x.seq for x in recs if x.kind == 'CALL' and x.i == cid)
            inside = set()
            for x in recs:
                if x.seq >= callseq:
                    break
                if not retrying:
                    if x.kind == 'BE' and x.key == me['key']:
                        cnt_at_call += 1
                    elif x.kind == 'BX' and x.key == me['key']:
                        cnt_at_call -= 1
                else:
                    if x.kind == 'BE' and x.key == me['key']:
                        inside.add(x.i)
                    elif x.kind == 'END' and x.key == me['key']:
                        inside.discard(x.i)
                    cnt_at_call = len(inside)
            waiting_before = [y for y in info.values() if isinstance(y, dict) and y.get('key') == me['key'] and y is not me
                              and any(x.kind == 'CALL' and x.i == y['i'] and x.seq < callseq for x in recs)
                              and not any(x.kind in ('BE', 'END') and x.i == y['i'] and x.seq < callseq for x in recs)]
            if cnt_at_call < L and not waiting_before:
                ctx.check('C20.no_spurious_wait', be.t == me['call'], caller=cid, cnt=cnt_at_call)
            elif not cid.startswith('p'):
                ctx.witness('contention')
    if cancel is not None:
        if info.get('cancel_done_before'):
            ctx.witness('finished before cancel')
        else:
            me = info.get(str(cancel))
            if me is None:
                ctx.witness('cancelled before call')
            else:
                ctx.witness('cancelled while running' if str(cancel) in entered else 'cancelled while waiting')
                ctx.check('C20.cancel_not_swallowed', me['res'] and me['res'][0] == 'cancelled', got=str(me['res']))
    # ---- capacity probe: first L probes enter at probe_at, the L+1st exactly when the first slot frees (+1/10)
    pa = info['probe_at']
    pin = [entered.get(f'p{j}_0') for j in range(L + 1)]
    ctx.check('C20.released_once', all(p is not None for p in pin) and zand(*[p.t == pa for p in pin[:L]], pin[L].t == pa + pdur),
              why='capacity after quiescence differs from L (slot leaked or released twice)')


def t_sem2loops(ctx):
    """The same semaphore name used (with contention) in two successive event loops of one process."""
    helpers = env.helpers
    d = ctx.real('d', Exact('1/10'), 1)
    out = {}

    @helpers.retry(wait=0, retries=0, timeout=5, semaphore_limit=1, semaphore_name='S2', semaphore_scope='global', semaphore_lax=False)
    async def f(i):
        live.append(i)
        peak[0] = max(peak[0], len(live))
        try:
            await asyncio.sleep(d)
        finally:
            live.remove(i)
        return i

    live, peak = [], [0]

    def one_loop(tag):
        peak[0] = 0
        loop = ctx.new_loop(horizon=20)
        res = {}

        async def main():
            rs = await asyncio.gather(f(0), f(1), return_exceptions=True)
            res['rs'] = rs
        okk = ctx.run(main())
        ctx.teardown()
        out[tag] = (okk, res.get('rs'), peak[0])

    one_loop('loop1')
    one_loop('loop2')
    one_loop('loop3')
    ctx.rec('K', l1=str(out['loop1']), l2=str(out['loop2']))
    for tag in ('loop1', 'loop2', 'loop3'):
        okk, rs, pk = out[tag]
        ctx.check('C20.successive_loops', bool(okk) and rs == [0, 1], loop=tag, got=repr(rs))
        ctx.check('C20.limit', pk <= 1, loop=tag, peak=pk, why='limit 1 exceeded in this event loop')


def t_semarith(ctx):
    """Leaf arithmetic: _calculate_semaphore_timeout and _get_semaphore_key."""
    helpers = env.helpers
    L = int(ctx.int('L', 1, 6))
    timeout = ctx.real('timeout', Exact('1/100'), 100)
    mode = ctx.pick('mode', ('none', 'zero', 'value'))
    st = None if mode == 'none' else (0 if mode == 'zero' else ctx.real('st', Exact('1/1000'), 100))
    r = helpers._calculate_semaphore_timeout(st, timeout, L)
    if mode == 'none':
        ctx.check('C20.semarith', zand(r >= timeout, r >= timeout * (L - 1), zor(r == timeout, r == timeout * (L - 1))))
    elif mode == 'zero':
        ctx.check('C20.semarith', r == Exact('1/100'))
    else:
        ctx.check('C20.semarith', r == st)
    ctx.check('C20.semarith_positive', r > 0)

    class A:
        pass
    a, b = A(), A()
    k = helpers._get_semaphore_key
    ctx.check('C20.keys', k('f', None, 'global', (a,)) == k('f', None, 'global', (b,)) == 'f'
              and k('f', 'nm', 'global', ()) == 'nm'
              and k('f', None, 'class', (a,)) == k('f', None, 'class', (b,)) != k('f', None, 'global', (a,))
              and k('f', None, 'self', (a,)) != k('f', None, 'self', (b,))
              and k('f', None, 'self', (a,)) == k('f', None, 'self', (a,)))
    ctx.rec('K', mode=mode, L=L)


TEMPLATES = {'r.sem': t_sem, 'r.sem2loops': t_sem2loops, 'k.semarith': t_semarith}


def jobs(tier):
    out = [Job('C20', 'k.semarith', t_semarith, {})]
    out.append(Job('C20', 'r.sem2loops', t_sem2loops, {}))
    W = ('contention',)
    if tier == 'quick':
        out.append(Job('C20', 'r.sem', t_sem, dict(L=1, n=2, scope='global', sem_timeout='1/2'), witnesses=W + ('limit exceeded (lax)', 'non-lax acquisition time-out')))
        out.append(Job('C20', 'r.sem', t_sem, dict(L=1, n=2, scope='global', sem_timeout=None, raising=False), witnesses=W))
        out.append(Job('C20', 'r.sem', t_sem, dict(L=1, n=2, scope='global', sem_timeout='1/2', cancel=1, raising=False, nd=1),
                       witnesses=('cancelled while waiting', 'cancelled while running')))
        out.append(Job('C20', 'r.sem', t_sem, dict(L=1, n=2, scope='global', sem_timeout='1/2', cancel=0, raising=False, nd=1),
                       witnesses=('cancelled while running',)))
        out.append(Job('C20', 'r.sem', t_sem, dict(L=1, n=2, scope='global', sem_timeout=None, raising=True, cancel=0, nd=1, retries=1, wait='1/5'),
                       witnesses=W + ('cancelled while running',)))
        out.append(Job('C20', 'r.sem', t_sem, dict(L=1, n=3, scope='two_names', sem_timeout='1/2', raising=False, nd=1), witnesses=W))
        out.append(Job('C20', 'r.sem', t_sem, dict(L=1, n=3, scope='class', sem_timeout='1/2', raising=False, nd=1), witnesses=W))
        out.append(Job('C20', 'r.sem', t_sem, dict(L=1, n=3, scope='self', sem_timeout='1/2', raising=False, nd=1), witnesses=W))
        out.append(Job('C20', 'r.sem', t_sem, dict(L=1, n=3, scope='self', sem_timeout='1/2', raising=False, nd=1, falsy=True), witnesses=W))
        out.append(Job('C20', 'r.sem', t_sem, dict(L=1, n=3, scope='class', sem_timeout='1/2', raising=False, nd=1, falsy=True), witnesses=W))
        out.append(Job('C20', 'r.sem', t_sem, dict(L=2, n=3, scope='global', sem_timeout='1/2', raising=False, nd=1), witnesses=W))
        out.append(Job('C20', 'r.sem', t_sem, dict(L=2, n=4, scope='global', sem_timeout='2', raising=False, nd=1, pin_s1='0'), witnesses=W))
    else:
        for L in (1, 2):
            for st in (None, 0, '1/2'):
                out.append(Job('C20', 'r.sem', t_sem, dict(L=L, n=L + 1, scope='global', sem_timeout=st), max_paths=8000))
                out.append(Job('C20', 'r.sem', t_sem, dict(L=L, n=3, scope='global', sem_timeout=st, raising=False, nd=2), max_paths=8000))
                for c in (0, 1):
                    out.append(Job('C20', 'r.sem', t_sem, dict(L=L, n=L + 1, scope='global', sem_timeout=st, cancel=c, raising=False, nd=2), max_paths=8000))
        for sc in ('two_names', 'class', 'self'):
            for st in (None, '1/2'):
                out.append(Job('C20', 'r.sem', t_sem, dict(L=1, n=3, scope=sc, sem_timeout=st, raising=False, nd=2), max_paths=8000))
    return out
