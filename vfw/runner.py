"""Job exploration, obligation discharge, known-finding attribution, closure, evidence."""
from __future__ import annotations

import json
import os
import sys
import time
import traceback

from . import base
from .base import HarnessError, PathAbort, is_sym

ROOT = os.path.dirname(os.path.dirname(os.path.abspath(__file__)))


class Job:
    def __init__(self, prop, template, fn, cfg=None, max_paths=None, witnesses=(), note=''):
        self.prop = prop
        self.template = template
        self.fn = fn
        self.cfg = cfg or {}
        self.max_paths = max_paths
        self.witnesses = tuple(witnesses)
        self.note = note

    def key(self):
        return f'{self.template}{json.dumps(self.cfg, sort_keys=True, default=str)}'


def load_known(prop):
    p = os.path.join(ROOT, 'known_findings.json')
    if not os.path.exists(p):
        return []
    with open(p) as f:
        data = json.load(f)
    return [e for e in data.get('findings', []) if e.get('property') == prop and e.get('status', 'known') == 'known']


def _cfg_match(entry_cfg, cfg):
    for k, v in (entry_cfg or {}).items():
        cv = cfg.get(k)
        if isinstance(v, list) and not isinstance(cv, list):
            if cv not in v:
                return False
        elif cv != v and json.loads(json.dumps(cv, default=str)) != v:
            return False
    return True


def explore_job(job: Job, seed=0, second_solver=False):
    """Explore one job exhaustively (or to its path budget).  Runs in a worker process."""
    import z3
    from . import zsym
    from .ctx import Ctx

    t0 = time.time()
    drv = zsym.Driver(seed=seed, max_paths=job.max_paths)
    zsym.DRIVER = drv
    known = [e for e in load_known(job.prop) if e.get('template') == job.template and _cfg_match(e.get('config'), job.cfg)]
    out = dict(job=job.key(), template=job.template, cfg=job.cfg, prop=job.prop, regions=0, exhaustive=False, frontier=0,
               obligations=0, discharged=0, violations=[], known_seen={}, classes={}, witnesses=set(), functions=set(),
               decls={}, errors=[], clause_regions={}, samples=[], horizon=None, second_solver_checked=0,
               second_solver_disagreements=0, hangs=0)
    pcs = []
    viol_keys = {}
    profile_first = True
    try:
        while True:
            drv.start_path()
            base.FATAL.clear()
            ctx = Ctx('sym', job.cfg, driver=drv)
            prof = None
            if profile_first:
                prof = _Profiler()
                prof.start()
            try:
                try:
                    job.fn(ctx)
                except PathAbort:
                    pass
                finally:
                    if prof:
                        prof.stop()
                        out['functions'] |= prof.funcs
                        profile_first = False
                    ctx.teardown()
                if base.FATAL:
                    raise base.FATAL[0]
                out['regions'] += 1
                out['decls'].update(ctx.decls)
                out['horizon'] = str(ctx.horizon) if ctx.horizon is not None else out['horizon']
                out['witnesses'] |= ctx.witnesses
                if ctx.hang:
                    out['hangs'] += 1
                pc = drv.pc_expr()
                pcs.append(pc)
                dg = ctx.digest()
                nontrivial = drv.depth > 0
                cls = out['classes'].setdefault(dg, dict(n=0, nontrivial=False, witnesses=[]))
                cls['n'] += 1
                cls['nontrivial'] = cls['nontrivial'] or nontrivial
                if len(out['samples']) < 3 and cls['n'] == 1:
                    m = drv.model()
                    out['samples'].append(dict(template=job.template, cfg=_jsonable(job.cfg),
                                               path_condition=str(z3.simplify(pc))[:600], model=zsym.model_to_dict(drv, m),
                                               trace=ctx.trace_excerpt(30),
                                               verdicts=[(c, ('obligation' if is_sym(v) else v)) for c, v, _ in ctx.results][:30]))
                # ---- verdicts
                for clause, verdict, info in ctx.results:
                    if job.prop != '*' and not clause.startswith(job.prop + '.'):
                        continue
                    cr = out['clause_regions'].setdefault(clause, dict(regions=0, obligations=0, violated=0))
                    cr['regions'] += 1
                    violating = None
                    if is_sym(verdict):
                        out['obligations'] += 1
                        cr['obligations'] += 1
                        neg = z3.Not(verdict.e)
                        sat, m = drv.check_sat(neg)
                        if second_solver:
                            _second_solver(out, drv, neg, sat)
                        if sat:
                            violating = neg
                        else:
                            out['discharged'] += 1
                    elif verdict is False or (verdict is not True and not verdict):
                        violating = z3.BoolVal(True)
                    if violating is None:
                        if os.environ.get('VFW_DEBUG_REGIONS') == clause:
                            out.setdefault('debug', []).append(('ok', zsym.model_to_dict(drv, drv.model()), ''))
                        continue
                    cr['violated'] += 1
                    if os.environ.get('VFW_DEBUG_REGIONS') == clause:
                        out.setdefault('debug', []).append(('V', zsym.model_to_dict(drv, drv.check_sat(violating)[1]), str(z3.simplify(pc))[:3000]))
                    # ---- attribute to known findings
                    ks = [e for e in known if e.get('clause') == clause and (not e.get('tag') or e['tag'] in ctx.tags)]
                    model = None
                    if ks:
                        regs = [zsym.parse_region(e.get('region', 'true'), drv, job.cfg) for e in ks]
                        sat, m = drv.check_sat(violating, z3.Not(z3.Or(regs)))
                        if not sat:
                            # wholly inside the known regions: record which
                            for e, r in zip(ks, regs):
                                s2, m2 = drv.check_sat(violating, r)
                                if s2:
                                    ksn = out['known_seen'].setdefault(e['id'], dict(regions=0, model=None, clause=clause,
                                                                                      template=job.template, cfg=_jsonable(job.cfg)))
                                    ksn['regions'] += 1
                                    if ksn['model'] is None:
                                        ksn['model'] = zsym.model_to_dict(drv, m2)
                            continue
                        model = m
                    else:
                        sat, model = drv.check_sat(violating)
                        if not sat:
                            raise HarnessError('violating set unexpectedly empty')
                    vk = (clause,)
                    n = viol_keys.get(vk, 0)
                    viol_keys[vk] = n + 1
                    if n < 3:
                        out['violations'].append(dict(property=job.prop, clause=clause, template=job.template,
                                                      cfg=_jsonable(job.cfg), model=zsym.model_to_dict(drv, model),
                                                      info=_jsonable(info), trace=ctx.trace_excerpt(60),
                                                      path_condition=str(z3.simplify(pc))[:600]))
            finally:
                drv.end_path()
            if job.max_paths and drv.n_paths >= job.max_paths:
                more = drv.next_prefix()
                out['exhaustive'] = not more
                out['frontier'] = drv.frontier() + (1 if more else 0)
                break
            if not drv.next_prefix():
                out['exhaustive'] = True
                break
        # ---- closure
        out['closure'] = None
        if out['exhaustive'] and len(pcs) <= 6000:
            s = z3.Solver()
            s.set('timeout', 120000)
            for c in drv.domain:
                s.add(c)
            s.add(z3.Not(z3.Or(pcs)) if pcs else z3.BoolVal(False))
            tq = time.perf_counter()
            r = s.check()
            drv.solver_s += time.perf_counter() - tq
            drv.n_other_queries += 1
            out['closure'] = str(r)
            if second_solver and r == z3.unsat:
                _second_solver_raw(out, s)
            if r != z3.unsat:
                raise HarnessError(f'closure query not unsat ({r}): explored regions do not cover the domain')
        elif out['exhaustive']:
            out['closure'] = 'skipped (>6000 regions): relies on the DFS invariant'
    except HarnessError as ex:
        out['errors'].append(f'{type(ex).__name__}: {ex}')
    except Exception as ex:  # harness bug -> inconclusive
        out['errors'].append('harness exception: ' + ''.join(traceback.format_exception(type(ex), ex, ex.__traceback__))[-1500:])
    finally:
        zsym.DRIVER = None
    out['branch_queries'] = drv.n_branch_queries
    out['other_queries'] = drv.n_other_queries
    out['solver_s'] = round(drv.solver_s, 3)
    out['wall_s'] = round(time.time() - t0, 3)
    out['witnesses'] = sorted(out['witnesses'])
    out['functions'] = sorted(out['functions'])
    missing = [w for w in job.witnesses if w not in out['witnesses']]
    if missing and not out['errors'] and out['exhaustive']:
        out['errors'].append(f'Vacuous: template {job.template} {job.cfg} never exhibited witness(es) {missing}')
    out['n_classes'] = len(out['classes'])
    out['n_nontrivial_classes'] = sum(1 for c in out['classes'].values() if c['nontrivial'])
    out['classes'] = None
    return out


def _jsonable(x):
    return json.loads(json.dumps(x, default=str))


def _second_solver(out, drv, neg, sat_z3):
    """Re-discharge PC ∧ ¬φ with cvc5 (python wheel) from the SMT-LIB2 dump."""
    import z3
    s = z3.Solver()
    for c in drv.domain:
        s.add(c)
    for c in drv.pc():
        s.add(c)
    s.add(neg)
    r = _cvc5_check(s.to_smt2())
    out['second_solver_checked'] += 1
    if r not in ('sat', 'unsat') or (r == 'sat') != sat_z3:
        out['second_solver_disagreements'] += 1
        out['errors'].append(f'second solver disagreement: z3={"sat" if sat_z3 else "unsat"} cvc5={r}')


def _second_solver_raw(out, s):
    r = _cvc5_check(s.to_smt2())
    out['second_solver_checked'] += 1
    if r != 'unsat':
        out['second_solver_disagreements'] += 1
        out['errors'].append(f'second solver disagreement on closure: z3=unsat cvc5={r}')


def _cvc5_check(smt2: str) -> str:
    try:
        import cvc5
        slv = cvc5.Solver()
        slv.setOption('tlimit', '60000')
        parser = cvc5.InputParser(slv)
        parser.setStringInput(cvc5.InputLanguage.SMT_LIB_2_6, '(set-logic ALL)\n' + smt2, 'q')
        sm = parser.getSymbolManager()
        res = None
        while True:
            cmd = parser.nextCommand()
            if cmd.isNull():
                break
            r = cmd.invoke(slv, sm)
            r = str(r).strip()
            if r in ('sat', 'unsat', 'unknown'):
                res = r
            if '(error' in r:
                return 'error'
        return res or 'none'
    except Exception as ex:
        return f'error:{type(ex).__name__}:{ex}'


class _Profiler:
    """Records which bubus functions executed (first path of each job)."""

    def __init__(self):
        self.funcs = set()

    def _cb(self, frame, event, arg):
        if event == 'call':
            fn = frame.f_code.co_filename
            if '/bubus/' in fn and '/site-packages/' not in fn:
                self.funcs.add(f'{os.path.basename(fn)}:{frame.f_code.co_qualname}')

    def start(self):
        import threading
        sys.setprofile(self._cb)

    def stop(self):
        sys.setprofile(None)


# --------------------------------------------------------------------------- concrete replay (z3-free)
def replay_concrete(job: Job, model: dict):
    """Run the template at concrete values; return (ctx, {clause: [verdicts]})."""
    from .ctx import Ctx
    base.FATAL.clear()
    ctx = Ctx('concrete', job.cfg, values=model)
    try:
        try:
            job.fn(ctx)
        except PathAbort:
            pass
    finally:
        ctx.teardown()
    if base.FATAL:
        raise base.FATAL[0]
    verdicts = {}
    for clause, v, info in ctx.results:
        if is_sym(v):
            raise HarnessError('symbolic verdict in concrete replay')
        verdicts.setdefault(clause, []).append(bool(v))
    return ctx, verdicts
