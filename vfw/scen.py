"""Generic data-driven scenario ("tree") used by the scheduling properties C01..C09, C11, C15.

cfg keys
  buses     : ['A', 'B', ...]                 bus names (creation order)
  order     : registry iteration order π      (tuple of names)
  parallel  : ['B']                           buses created with parallel_handlers=True
  reals     : {'d1': [lo, hi], ...}           symbolic durations / instants
  ints      : {'r': [lo, hi]}
  handlers  : [[bus, pattern, name, script, opts]]   script = list of steps (see _run_script)
  forwards  : [[src, dst]]                    src.on('*', dst.dispatch)
  typed_forwards_first : [[src, dst, cls]]    src.on(cls, dst.dispatch), registered before the handlers
  main      : list of steps executed by main  (same step language + main-only steps)
  actors    : {name: script}                  external tasks started with main
  first_use : {bus: 'main'|'handler'}         informational
  timeouts  : {label_prefix: seconds}         event_timeout per event class name
  horizon   : number
"""
from __future__ import annotations

import asyncio

from . import events as E
from .base import Exact, is_sym

CLASSES = {c.__name__: c for c in (E.P, E.C, E.G, E.L, E.X, E.R, E.U, E.TI, E.TS)}


def env_EventBus():
    from . import env
    return env.EventBus


EXC = {'ValueError': ValueError, 'KeyError': KeyError, 'TimeoutError': TimeoutError, 'Custom': type('CustomError', (Exception,), {}),
       'CancelledError': asyncio.CancelledError}    # (a handler that lets a cancellation of something it awaited escape)


def build(ctx):
    cfg = ctx.cfg
    vals = {}
    for name, (lo, hi) in (cfg.get('reals') or {}).items():
        vals[name] = ctx.real(name, Exact(lo), Exact(hi))
    for name, (lo, hi) in (cfg.get('ints') or {}).items():
        vals[name] = ctx.int(name, lo, hi)
    for a, b in cfg.get('ordered', []):
        ctx.require(vals[a] <= vals[b])
    ctx.vals = vals
    if cfg.get('prelude_loop'):
        # this process has already run (and finished) one event loop in which a bus processed an event, as scripts with several
        # asyncio.run() calls and test suites do; everything bound to that loop is stale now
        ctx.new_loop(horizon=3)

        async def _prelude():
            z = env_EventBus()(name='Prelude')

            def hz(ev):
                return 'z'
            z.on('*', hz)
            e = z.dispatch(E.X(event_timeout=30.0))
            await e
            await z.stop(clear=True)
        ctx.run(_prelude())
        ctx.teardown()
        ctx.records.clear()
    ctx.new_loop(horizon=cfg.get('horizon', 6))
    if cfg.get('late_timer'):
        # one timer of the run (index and lateness are solver-chosen integers named in the configuration) is noticed late
        li, lk = cfg['late_timer']
        k_late = int(vals[lk])
        if k_late > 0:
            ctx.loop.late_timer = (int(vals[li]), k_late)
    par = set(cfg.get('parallel', []))
    hist = cfg.get('max_history', {})
    plain = set(cfg.get('plain_buses', []))
    wal = set(cfg.get('wal', []))
    if wal:
        import os
        import tempfile
        from . import env as _env
        io = cfg.get('wal_io')

        async def _slow_write(path, text):
            # file I/O takes (symbolic) time: other things, e.g. a handler time-out, can happen meanwhile
            await asyncio.sleep(ctx.vals[io])
        ctx.wal_lines = _env.install_wal_stub(on_write=_slow_write if io else None)
    for b in cfg['buses']:
        kw = {}
        if b in par:
            kw['parallel_handlers'] = True
        if b in hist:
            kw['max_history_size'] = hist[b]
        # a plain bubus.EventBus next to the recording subclass (dispatches to it are recorded by the callers' wrappers)
        if b in (cfg.get('bus_names') or {}):
            kw['name_'] = cfg['bus_names'][b]
        if b in wal:
            kw['wal_path'] = os.path.join(tempfile.gettempdir(), 'vfw_wal', f'{b}.jsonl')
        ctx.bus(b, cls=env_EventBus() if b in plain else None, **kw)
    # other live buses that were created with an already taken name (the library warns and auto-renames them)
    ctx.decoys = []
    for b, n_ in (cfg.get('decoys') or {}).items():
        for j in range(n_):
            d = env_EventBus()(name=b)
            d._vfw_name = f'{b}~{j}'
            ctx.decoys.append(d)
    ctx.exc_objects = {}
    ctx.bus_reads = []
    ctx.returned = {}
    # forwards that apply to one event class and are registered before the bus's own handlers (so they run first)
    for (src, dst, cls) in cfg.get('typed_forwards_first', []):
        ctx.buses[src].on(CLASSES[cls], ctx.buses[dst].dispatch)
        ctx.forwards = getattr(ctx, 'forwards', []) + [(src, dst, CLASSES[cls].__name__)]
    for (bus, pattern, name, script, *opt) in cfg.get('handlers', []):
        opts = opt[0] if opt else {}
        _register(ctx, bus, pattern, name, script, opts)
    for (src, dst) in cfg.get('forwards', []):
        ctx.buses[src].on('*', ctx.buses[dst].dispatch)
        ctx.forwards = getattr(ctx, 'forwards', []) + [(src, dst)]
    if not hasattr(ctx, 'forwards'):
        ctx.forwards = []
    for (bus, pattern, name, script, *opt) in cfg.get('late_handlers', []):
        _register(ctx, bus, pattern, name, script, opt[0] if opt else {})


def _val(ctx, x):
    if isinstance(x, str):
        if x in ctx.vals:
            return ctx.vals[x]
        return Exact(x)
    return x


def _mk_event(ctx, cls, label, **kw):
    to = (ctx.cfg.get('timeouts') or {})
    if label in to:
        kw['event_timeout'] = None if to[label] is None else float(Exact(to[label]))
    elif cls in to:
        kw['event_timeout'] = None if to[cls] is None else float(Exact(to[cls]))
    elif 'event_timeout' not in kw:
        kw['event_timeout'] = ctx.cfg.get('default_timeout', 60.0)
    if cls == 'U':
        kw['blob'] = object()      # a payload field that has no JSON form
    return ctx.ev(CLASSES[cls], label, **kw)


def _register(ctx, bus, pattern, name, script, opts):
    b = ctx.buses[bus]
    pat = CLASSES[pattern] if (pattern in CLASSES and not opts.get('by_name')) else pattern
    sync = bool(opts.get('sync'))
    if opts.get('bus_method'):
        # the handler is a bound method of the (EventBus subclass) instance itself
        import types

        def plain(self_, ev_):
            return None
        fn = ctx.on(b, pat, name, lambda inv, ev: _run_sync(ctx, inv, ev, script), sync=True, register=False)

        def method(self_, ev_):
            return fn(ev_)
        method.__name__ = name
        method.__qualname__ = name
        bound = types.MethodType(method, b)
        b.on(pat, bound)
        key = pat if isinstance(pat, str) else pat.__name__
        ctx.registered.append((b._vfw_name, key, name, -1))
        return
    if sync:
        def body(inv, ev):
            return _run_sync(ctx, inv, ev, script)
    else:
        async def body(inv, ev):
            return await _run_script(ctx, inv, ev, script)
    ctx.on(b, pat, name, body, sync=sync)


def _run_sync(ctx, inv, ev, script):
    for st in script:
        op = st[0]
        if op == 'disp':
            _, bus, cls, label = st[:4]
            lab = _label(ctx, inv, label)
            inv.dispatch(ctx.buses[bus], _mk_event(ctx, cls, lab))
        elif op == 'raise':
            ex = EXC[st[1]](f'{inv.id}')
            ctx.exc_objects[inv.id] = ex
            raise ex
        elif op == 'ret':
            ctx.returned[inv.id] = st[1]
            return st[1]
        elif op == 'ret_exc':
            ex = EXC[st[1]](f'{inv.id}')
            ctx.exc_objects[inv.id] = ex
            return ex
        elif op == 'read_bus':
            _read_bus(ctx, inv, ev)
        elif op == 'spawn':
            # a background task started by the handler (it inherits the handler's context) and not awaited by it
            t = asyncio.ensure_future(_run_script(ctx, inv, ev, st[1]))
            ctx.spawned = getattr(ctx, 'spawned', []) + [t]
        else:
            raise AssertionError(f'sync step {op}')
    return None


def _read_bus(ctx, inv, ev):
    try:
        b = ev.event_bus
        nm = getattr(b, '_vfw_name', getattr(b, 'name', None))
    except Exception as ex:  # noqa
        nm = 'raise:' + type(ex).__name__
    ctx.rec('BUSREAD', h=inv.id, bus=inv.bus._vfw_name if inv.bus else None, got=nm, path=list(ev.event_path))


def _label(ctx, inv, label):
    """labels may embed the dispatching event's label to stay unique under recursion / repeated handlers."""
    if '{' in label:
        return label.format(ev=ctx.label(inv.event) if inv.event is not None else 'main', inv=inv.id)
    return label


async def _run_script(ctx, inv, ev, script):
    for st in script:
        op = st[0]
        if op == 'only':
            # the rest of the script applies to events of one type only (wildcard handlers)
            if ev is not None and ev.event_type != st[1]:
                return None
        elif op == 'sleep':
            await inv.sleep(_val(ctx, st[1]))
        elif op == 'switch':
            # one handler object that serves several event types (registered on '*'): the sub-script of the event's type runs
            sub = st[1].get(type(ev).__name__) if ev is not None else None
            if sub is not None:
                r = await _run_script(ctx, inv, ev, sub)
                if any(x[0] in ('ret', 'ret_exc') for x in sub):
                    return r
        elif op == 'spawn':
            t = asyncio.ensure_future(_run_script(ctx, inv, ev, st[1]))
            ctx.spawned = getattr(ctx, 'spawned', []) + [t]
        elif op == 'sleep_cleanup':
            try:
                await inv.sleep(_val(ctx, st[1]))
            except asyncio.CancelledError:
                # clean-up that takes time, only when the handler is cancelled
                ctx.rec('CLEANUP', h=inv.id)
                await asyncio.sleep(_val(ctx, st[2]))
                raise
        elif op == 'disp':
            _, bus, cls, label = st[:4]
            lab = _label(ctx, inv, label)
            try:
                inv.dispatch(ctx.buses[bus], _mk_event(ctx, cls, lab))
            except Exception:
                if len(st) > 4 and st[4] == 'swallow':
                    pass
                else:
                    raise
        elif op == 'disp_explicit':
            _, bus, cls, label, pid = st
            inv.dispatch(ctx.buses[bus], _mk_event(ctx, cls, label, event_parent_id=pid))
        elif op == 'await':
            lab = _label(ctx, inv, st[1])
            await inv.wait(ctx.events[lab])
        elif op == 'dispawait':
            _, bus, cls, label = st[:4]
            lab = _label(ctx, inv, label)
            e = inv.dispatch(ctx.buses[bus], _mk_event(ctx, cls, lab))
            await inv.wait(e)
        elif op == 'dispawait_swallow':
            # dispatch and await; a refused dispatch (bus at capacity / queue full) is swallowed and nothing is awaited
            _, bus, cls, label = st[:4]
            lab = _label(ctx, inv, label)
            try:
                e = inv.dispatch(ctx.buses[bus], _mk_event(ctx, cls, lab))
            except Exception:
                e = None
                ctx.rejected_labels = getattr(ctx, 'rejected_labels', []) + [(bus, lab)]
            if e is not None:
                await inv.wait(e)
        elif op == 'dispawait_shared':
            # several handlers dispatch (and await) the very same event object
            _, bus, cls, label = st
            e = ctx.events.get(label) or _mk_event(ctx, cls, label)
            inv.dispatch(ctx.buses[bus], e)
            await inv.wait(e)
        elif op == 'redispatch':
            _, bus, label = st
            inv.dispatch(ctx.buses[bus], ctx.events[label])
        elif op == 'redispatch_swallow':
            # like redispatch, but a refusal (bus at capacity / queue full) is swallowed
            _, bus, label = st
            try:
                inv.dispatch(ctx.buses[bus], ctx.events[label])
            except Exception:
                ctx.rejected_labels = getattr(ctx, 'rejected_labels', []) + [(bus, label)]
        elif op == 'raise':
            ex = EXC[st[1]](f'{inv.id}')
            ctx.exc_objects[inv.id] = ex
            raise ex
        elif op == 'raise_chained':
            # an exception with a __cause__ and a __context__ (raise ... from ... inside an except block)
            try:
                raise KeyError('inner')
            except KeyError as inner:
                ex = EXC[st[1]](f'{inv.id}')
                ctx.exc_objects[inv.id] = ex
                raise ex from inner
        elif op == 'ret':
            ctx.returned[inv.id] = st[1]
            return st[1]
        elif op == 'ret_exc':
            ex = EXC[st[1]](f'{inv.id}')
            ctx.exc_objects[inv.id] = ex
            return ex
        elif op == 'inner_timeout':
            # the handler's own inner timeout scope expires (well inside the event timeout)
            try:
                async with asyncio.timeout(_val(ctx, st[1])):
                    await asyncio.sleep(50)
            except TimeoutError as ex:
                ctx.exc_objects[inv.id] = ex
                raise
        elif op == 'read_bus':
            _read_bus(ctx, inv, ev)
        elif op == 'recur':
            # self-recursive: dispatch R(n+1) to bus and await it while n < r
            _, bus, rvar, mode = st
            r = _val(ctx, rvar)
            if ev.n < r:
                lab = f'R{ev.n + 1}'
                e = inv.dispatch(ctx.buses[bus], _mk_event(ctx, 'R', lab, n=ev.n + 1))
                if mode == 'await':
                    await inv.wait(e)
        elif op == 'expect':
            # await bus.expect(EventClass, timeout=...) (a temporary subscription); outcome recorded, never raised
            _, bus, cls, to, *inc = st
            want = inc[0] if inc else None       # optional: only the event with this label matches (an include= filter)
            ctx.rec('EXPB', by=inv.id, bus=bus, want=want, timeout=_val(ctx, to))
            kw = {}
            if want is not None:
                kw['include'] = lambda e: ctx.label(e) == want
            try:
                got = await ctx.buses[bus].expect('*' if cls == '*' else CLASSES[cls], timeout=float(_val(ctx, to)), **kw)
                ctx.rec('EXPE', by=inv.id, bus=bus, outcome='match', ev=ctx.label(got))
            except TimeoutError:
                ctx.rec('EXPE', by=inv.id, bus=bus, outcome='timeout')
        elif op == 'mkevent':
            # create an event object now (its creation stamp is older than whatever is created later), dispatch it later with redispatch
            _mk_event(ctx, st[1], st[2])
        elif op == 'block':
            # synchronous work that takes time: the clock advances while nothing else can run (timers that fall due meanwhile are all
            # handled in the next loop iteration, after whatever was already ready)
            ctx.loop._now = ctx.loop._now + _val(ctx, st[1])
            ctx.rec('BLOCK', by=inv.id)
        elif op == 'sleep_steps':
            # wait k event-loop iterations without any time passing (k usually a solver-chosen integer): explores the orderings
            # of things that happen at the same virtual instant
            for _ in range(int(_val(ctx, st[1]))):
                await asyncio.sleep(0)
        elif op == 'burst':
            _, bus, cls, nvar, prefix = st
            nn = _val(ctx, nvar)
            for i in range(nn):
                inv.dispatch(ctx.buses[bus], _mk_event(ctx, cls, f'{prefix}{i}'))
        elif op == 'burst_swallow':
            _, bus, cls, nvar, prefix = st
            nn = _val(ctx, nvar)
            for i in range(nn):
                try:
                    inv.dispatch(ctx.buses[bus], _mk_event(ctx, cls, f'{prefix}{i}'))
                except Exception:
                    ctx.rejected_labels = getattr(ctx, 'rejected_labels', []) + [(bus, f'{prefix}{i}')]
        elif op == 'redispatch_rejected':
            # the very event objects whose dispatch was rejected are offered again (after the bus has drained)
            for (bus, lab) in list(getattr(ctx, 'rejected_labels', [])):
                try:
                    inv.dispatch(ctx.buses[bus], ctx.events[lab])
                except Exception:
                    pass
        # ---- main / actor only
        elif op == 'root':
            _, bus, cls, label = st[:4]
            kw = st[4] if len(st) > 4 else {}
            inv.dispatch(ctx.buses[bus], _mk_event(ctx, cls, label, **kw))
        elif op == 'register':
            # late registration of a monitored handler (between events, from ordinary code)
            _, bus, pattern, name = st
            _register(ctx, bus, pattern, name, [['ret', 'late']], {})
        elif op == 'new_bus':
            # a bus created while the scenario is running (after other buses were used / stopped), with its handlers
            _, name, hs = st
            ctx.bus(name)
            for (pattern, hname, script, *opt) in hs:
                _register(ctx, name, pattern, hname, script, opt[0] if opt else {})
        elif op == 'idle':
            b = ctx.buses[st[1]]
            ctx.rec('AB', by=inv.id, ev='idle:' + st[1])
            # events accepted by this bus before the call (harness records)
            await b.wait_until_idle()
            ctx.rec('AE', by=inv.id, ev='idle:' + st[1], outcome='return')
            ctx.obs('after_idle', bus=b)
        elif op == 'obs':
            ctx.obs(st[1], ev=ctx.events[st[2]])
        elif op == 'obs_all':
            for lab, e in list(ctx.events.items()):
                ctx.obs(st[1], ev=e)
        elif op == 'await_if':
            if st[1] in ctx.events:
                await inv.wait(ctx.events[st[1]])
                ctx.obs('after_await_ext', ev=ctx.events[st[1]])
        elif op == 'poll_if':
            # like poll, but silently skipped if the event does not exist (yet)
            await inv.sleep(_val(ctx, st[1]))
            if st[2] in ctx.events:
                ctx.obs('poll', ev=ctx.events[st[2]])
        elif op == 'poll':
            # poller: observe an event at a (symbolic) instant
            await inv.sleep(_val(ctx, st[1]))
            ctx.obs('poll', ev=ctx.events[st[2]])
        elif op == 'stop':
            b = ctx.buses[st[1]]
            kw = st[2] if len(st) > 2 else {}
            t0 = ctx.now()
            ctx.rec('STOPB', bus=st[1])
            await b.stop(**kw)
            ctx.rec('STOPE', bus=st[1], t0=t0)
        elif op == 'accessors_all':
            # read a (completed) event through every public result accessor; what they return or raise is not the point here
            e = ctx.events[st[1]]
            for nm in ('event_result', 'event_results_list', 'event_results_by_handler_id', 'event_results_by_handler_name',
                       'event_results_flat_dict', 'event_results_flat_list'):
                try:
                    kw = dict(raise_if_any=False, raise_if_none=False, timeout=1.0)
                    if nm == 'event_results_flat_dict':
                        kw['raise_if_conflicts'] = False
                    await getattr(e, nm)(**kw)
                except Exception as ex:  # noqa
                    ctx.rec('ACC', ev=st[1], kw=nm, outcome='raise', exc_type=type(ex).__name__)
        elif op == 'accessor':
            _, label, kwargs = st
            e = ctx.events[label]
            try:
                v = await e.event_result(**kwargs)
                ctx.rec('ACC', ev=label, kw=str(kwargs), outcome='return', val=repr(v)[:40])
            except BaseException as ex:  # noqa
                ctx.rec('ACC', ev=label, kw=str(kwargs), outcome='raise', exc_type=type(ex).__name__)
                ctx.acc_raised = getattr(ctx, 'acc_raised', []) + [(label, str(kwargs), ex)]
        else:
            raise AssertionError(f'unknown step {op}')
    return None


def run(ctx):
    """build + run main (+actors); returns whether main finished before the horizon."""
    build(ctx)
    cfg = ctx.cfg

    async def main():
        m = ctx.main
        tasks = []
        for name, script in (cfg.get('actors') or {}).items():
            tasks.append(asyncio.ensure_future(_run_script(ctx, ctx.actor(name), None, script)))
        await _run_script(ctx, m, None, cfg['main'])
        for t in tasks:
            await t
        # settle: let whatever the actors dispatched last be processed (plain virtual sleep, not the API under test)
        await asyncio.sleep(Exact(cfg.get('settle', 1)))
        ctx.rec('MAINEND')

    return ctx.run(main())
