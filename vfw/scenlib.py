"""Scenario catalogue (configuration dictionaries for scen.run)."""
from __future__ import annotations

import itertools

D = ['0', '3/10']      # default duration range
TI = ['0', '1/2']      # default instant range


def t_tree(ctx):
    from . import clauses, scen
    finished = scen.run(ctx)
    clauses.evaluate(ctx, finished)


def child(mode='await', k=0, depth=2, raising=None, actor=True, sync_child=False, two_handlers=False, extra_reals=None, child_ff=False):
    """one bus; P's handler dispatches C (mode), optional G below C; k unrelated L events queued behind P;
    an external actor dispatches X at t_x."""
    reals = {'d1': D, 'd2': D}
    hp = [['sleep', 'd1']]
    if mode == 'ff':
        hp += [['disp', 'A', 'C', 'C1']]
    elif mode == 'await':
        hp += [['dispawait', 'A', 'C', 'C1']]
    elif mode == 'yield_await':
        reals['d4'] = D
        hp += [['disp', 'A', 'C', 'C1'], ['sleep', 'd4'], ['await', 'C1']]
    hp += [['ret', 'p']]
    hc = []
    if child_ff:
        hc += [['disp', 'A', 'G', 'G1']]
    if depth >= 3:
        hc += [['dispawait', 'A', 'G', 'G1']]
    if sync_child:
        hc = [['ret', 'c']]
    else:
        hc += [['sleep', 'd2']]
        if raising == 'child':
            hc += [['raise', 'ValueError']]
        elif raising == 'child_chained':
            hc += [['raise_chained', 'ValueError']]
        else:
            hc += [['ret', 'c']]
    handlers = [['A', 'P', 'hP', hp], ['A', 'C', 'hC', hc, {'sync': sync_child}], ['A', 'L', 'hL', [['ret', 'l']]],
                ['A', 'X', 'hX', [['ret', 'x']]]]
    if depth >= 3 or child_ff:
        reals['d3'] = D
        handlers.append(['A', 'G', 'hG', [['sleep', 'd3'], ['ret', 'g']]])
    if two_handlers:
        handlers.append(['A', 'P', 'hP_b', [['ret', 'pb']], {'sync': True}])
        handlers.append(['A', '*', 'hAny', [['ret', 'any']]])
        handlers.append(['A', 'C', 'hC_byname', [['ret', 'cn']], {'by_name': True}])
    if raising == 'parent_sibling':
        handlers.append(['A', 'P', 'hBoom', [['raise', 'ValueError']], {'sync': True}])
    main = [['root', 'A', 'P', 'P1']] + [['root', 'A', 'L', f'L{i}'] for i in range(k)] + [['await', 'P1'], ['idle', 'A'], ['obs_all', 'end']]
    cfg = dict(buses=['A'], reals=reals, handlers=handlers, main=main, horizon=5)
    if actor:
        reals['t_x'] = TI
        cfg['actors'] = {'x': [['sleep', 't_x'], ['root', 'A', 'X', 'X1']]}
    if extra_reals:
        reals.update(extra_reals)
    return cfg


def roots3():
    """one bus, three roots at ordered symbolic instants, handler durations symbolic."""
    reals = {'d1': D, 'd2': D, 't2': TI, 't3': TI}
    handlers = [['A', 'P', 'hP', [['sleep', 'd1'], ['ret', 'p']]], ['A', 'L', 'hL', [['sleep', 'd2'], ['ret', 'l']]],
                ['A', 'X', 'hX', [['ret', 'x']]]]
    main = [['root', 'A', 'P', 'P1'], ['sleep', 't2'], ['root', 'A', 'L', 'L1'], ['sleep', 't3'], ['root', 'A', 'X', 'X1'],
            ['idle', 'A'], ['obs_all', 'end']]
    return dict(buses=['A'], reals=reals, handlers=handlers, main=main, horizon=5)


def recur(mode='await', rmax=4):
    handlers = [['A', 'R', 'hR', [['sleep', 'd'], ['recur', 'A', 'r', mode], ['ret', 'r']]]]
    main = [['root', 'A', 'R', 'R0'], ['await', 'R0'], ['idle', 'A'], ['obs_all', 'end']]
    return dict(buses=['A'], reals={'d': ['0', '1/5']}, ints={'r': [0, rmax]}, handlers=handlers, main=main, horizon=6)


def redispatch():
    """the same event object dispatched to the same bus again: in flight (actor at t_r) and after completion."""
    handlers = [['A', 'P', 'hP', [['sleep', 'd1'], ['ret', 'p']]], ['A', 'P', 'hP2', [['ret', 'p2']], {'sync': True}]]
    main = [['root', 'A', 'P', 'P1'], ['await', 'P1'], ['obs', 'after_await', 'P1'], ['redispatch', 'A', 'P1'], ['idle', 'A'],
            ['obs_all', 'end']]
    return dict(buses=['A'], reals={'d1': D, 't_r': TI}, handlers=handlers, main=main,
                actors={'r': [['sleep', 't_r'], ['redispatch', 'A', 'P1']]}, horizon=5)


def late_grandchild():
    """non-forwarded tree with a late fire-and-forget grandchild; a poller observes the root at t_p."""
    handlers = [['A', 'P', 'hP', [['disp', 'A', 'C', 'C1'], ['ret', 'p']]],
                ['A', 'C', 'hC', [['disp', 'A', 'G', 'G1'], ['sleep', 'd1'], ['ret', 'c']]],
                ['A', 'G', 'hG', [['sleep', 'd2'], ['ret', 'g']]]]
    main = [['root', 'A', 'P', 'P1'], ['await', 'P1'], ['obs', 'after_await', 'P1'], ['idle', 'A'], ['obs_all', 'end']]
    return dict(buses=['A'], reals={'d1': D, 'd2': D, 't_p': ['0', '1']}, handlers=handlers, main=main,
                actors={'poll': [['poll', 't_p', 'P1'], ['poll', 'd2', 'P1']]}, horizon=5)


def errors(kind='ValueError', where='parent', sync=False, after_sleep=True, ret_exc=False, root_cls='P', only_failing=False):
    """a raising handler (or one returning an exception object) placed as parent / awaited child / ff child; other events in flight."""
    boom = ([['sleep', 'd1']] if (after_sleep and not sync) else []) + ([['ret_exc', kind]] if ret_exc else [['raise', kind]])
    if kind == 'InnerTimeout':
        boom = [['inner_timeout', 'd1']]
    ok = [['ret', 'ok']]
    handlers = [['A', 'L', 'hL', [['ret', 'l']]], ['A', 'X', 'hX', [['ret', 'x']]]]
    if where == 'parent':
        okv = [['ret', 5]] if root_cls == 'TI' else ok
        handlers += [['A', root_cls, 'hBoom', boom, {'sync': sync}], ['A', root_cls, 'hOk', okv], ['A', root_cls, 'hOk2', [['sleep', 'd2'], ['ret', 7 if root_cls == 'TI' else 'ok2']]]]
    elif where == 'awaited_child':
        handlers += [['A', 'P', 'hP', [['dispawait', 'A', 'C', 'C1'], ['sleep', 'd2'], ['ret', 'p']]],
                     ['A', 'C', 'hBoom', boom, {'sync': sync}], ['A', 'C', 'hOk', ok]]
    else:
        handlers += [['A', 'P', 'hP', [['disp', 'A', 'C', 'C1'], ['sleep', 'd2'], ['ret', 'p']]],
                     ['A', 'C', 'hBoom', boom, {'sync': sync}], ['A', 'C', 'hOk', ok]]
    if only_failing:
        # no handler of the failing event produces a usable value (the others return None)
        for h in handlers:
            if h[2] in ('hOk', 'hOk2'):
                h[3] = [st if st[0] != 'ret' else ['ret', None] for st in h[3]]
    target = 'P1' if where == 'parent' else 'C1'
    main = [['root', 'A', root_cls, 'P1'], ['root', 'A', 'L', 'L1'], ['await', 'P1'], ['idle', 'A'],
            ['accessor', target, {'raise_if_any': True, 'raise_if_none': False}],
            ['accessor', target, {'raise_if_any': False, 'raise_if_none': False}],
                   ['accessor', target, {'raise_if_any': False, 'raise_if_none': True}], ['obs_all', 'end']]
    return dict(buses=['A'], reals={'d1': D, 'd2': D, 't_x': TI}, handlers=handlers, main=main,
                actors={'x': [['sleep', 't_x'], ['root', 'A', 'X', 'X1']]}, horizon=5)


def two_bus_await(target='other_running', order=('A', 'B'), yield_first=True, depth=2, parallel=()):
    """handler on A dispatches C to Y and awaits it. Y in {same, other_running (B already used from main), other_fresh}."""
    y = 'A' if target == 'same' else 'B'
    hp = [['sleep', 'd1'], ['disp', y, 'C', 'C1']] + ([['sleep', 'd3']] if yield_first else []) + [['await', 'C1'], ['ret', 'p']]
    hc = ([['dispawait', 'A', 'G', 'G1']] if depth >= 3 else []) + [['sleep', 'd2'], ['ret', 'c']]
    handlers = [['A', 'P', 'hP', hp], [y, 'C', 'hC', hc], ['B', 'X', 'hX', [['ret', 'x']]], ['A', 'G', 'hG', [['ret', 'g']]]]
    main = []
    if target == 'other_running':
        main += [['root', 'B', 'X', 'X0'], ['idle', 'B']]
    main += [['root', 'A', 'P', 'P1'], ['await', 'P1'], ['idle', 'A'], ['idle', 'B'], ['obs_all', 'end']]
    reals = {'d1': D, 'd2': D}
    if yield_first:
        reals['d3'] = D
    return dict(buses=['A', 'B'], order=list(order), parallel=list(parallel), reals=reals, handlers=handlers, main=main, horizon=6)


def two_bus_independent(order=('A', 'B'), first_use='main'):
    """two buses each with a slow handler; roots dispatched to different buses at t1,t2; B first used from main or from inside a handler of A."""
    handlers = [['A', 'P', 'hP', [['sleep', 'd1']] + ([['disp', 'B', 'C', 'C1']] if first_use == 'handler' else []) + [['sleep', 'd1'], ['ret', 'p']]],
                ['B', 'C', 'hC', [['sleep', 'd2'], ['ret', 'c']]], ['B', 'X', 'hX', [['sleep', 'd2'], ['ret', 'x']]],
                ['A', 'L', 'hL', [['sleep', 'd2'], ['ret', 'l']]]]
    main = [['root', 'A', 'P', 'P1']]
    if first_use == 'main':
        main += [['root', 'B', 'C', 'C1']]
    main += [['sleep', 't1'], ['root', 'A', 'L', 'L1'], ['root', 'B', 'X', 'X1'], ['idle', 'A'], ['idle', 'B'], ['obs_all', 'end']]
    return dict(buses=['A', 'B'], order=list(order), reals={'d1': D, 'd2': D, 't1': TI}, handlers=handlers, main=main, horizon=6)



def small_history_tree(n=4):
    """history limit n; P awaits C; C awaits n-1 quick grandchildren, then dispatches L without awaiting it and goes on working
    (d2) while an external actor enqueues the unrelated X behind L; C can complete only when L has (so the inline drain goes on)."""
    hc = [['dispawait', 'A', 'G', f'G{i + 1}'] for i in range(n - 1)] + [['disp', 'A', 'L', 'L1'], ['sleep', 'd2'], ['ret', 'c']]
    handlers = [['A', 'P', 'hP', [['sleep', 'd1'], ['dispawait', 'A', 'C', 'C1'], ['ret', 'p']]], ['A', 'C', 'hC', hc],
                ['A', 'G', 'hG', [['ret', 'g']]], ['A', 'L', 'hL', [['sleep', 'd3'], ['ret', 'l']]], ['A', 'X', 'hX', [['ret', 'x']]]]
    main = [['root', 'A', 'P', 'P1'], ['await', 'P1'], ['idle', 'A'], ['obs_all', 'end']]
    return dict(buses=['A'], max_history={'A': n}, reals={'d1': D, 'd2': D, 'd3': D, 't_x': TI}, handlers=handlers, main=main,
                actors={'x': [['sleep', 't_x'], ['root', 'A', 'X', 'X1']]}, horizon=6)


def drain(order=('A', 'B')):
    """p12 family: bus B has X1, X2 queued while a handler of A holds the lock and then awaits a child (inline drain)."""
    handlers = [['A', 'P', 'hP', [['sleep', 'd1'], ['dispawait', 'A', 'C', 'C1'], ['ret', 'p']]], ['A', 'C', 'hC', [['ret', 'c']]],
                ['B', 'X', 'hX', [['sleep', 'd2'], ['ret', 'x']]]]
    main = [['root', 'A', 'P', 'P1'], ['sleep', 't1'], ['root', 'B', 'X', 'X1'], ['root', 'B', 'X', 'X2'], ['idle', 'A'], ['idle', 'B'], ['obs_all', 'end']]
    return dict(buses=['A', 'B'], order=list(order), reals={'d1': D, 'd2': ['0', '1/10'], 't1': TI}, handlers=handlers, main=main, horizon=6)


def forward_chain(n=3, order=None, topo='chain', second_event=False, slow=True, late=False, poll=False, timeout=None):
    """forwarding over n buses: chain A->B->C, cycle (+C->A), diamond A->B, A->C, B->D, C->D."""
    names = ['A', 'B', 'C', 'D'][:n]
    if topo == 'chain':
        fw = [[names[i], names[i + 1]] for i in range(n - 1)]
    elif topo == 'cycle':
        fw = [[names[i], names[(i + 1) % n]] for i in range(n)]
    elif topo == 'diamond':
        names = ['A', 'B', 'C', 'D']
        fw = [['A', 'B'], ['A', 'C'], ['B', 'D'], ['C', 'D']]
    elif topo == 'fanin':
        names = ['A', 'B', 'C']
        fw = [['A', 'C'], ['B', 'C']]
    else:
        raise ValueError(topo)
    reals = {}
    handlers = []
    for i, b in enumerate(names):
        v = f'd{i + 1}' if (slow and i < 3) else None
        if v:
            reals[v] = D
        handlers.append([b, 'P', f'h{b}', ([['sleep', v]] if v else []) + [['read_bus'], ['ret', b.lower()]]])
        handlers.append([b, 'L', f'hL{b}', [['ret', 'l' + b.lower()]]])
    main = [['root', 'A', 'P', 'P1']]
    if second_event:
        main += [['root', names[1] if topo != 'fanin' else 'B', 'L', 'L1']]
    if topo == 'fanin':
        main += [['root', 'B', 'P', 'P2']]
    main += [['await', 'P1'], ['obs', 'after_await', 'P1']] + [['idle', b] for b in names] + [['obs_all', 'end']]
    cfg = dict(buses=names, order=list(order or names), reals=reals, handlers=handlers, forwards=fw, main=main, horizon=8)
    if timeout:
        from fractions import Fraction
        cfg['timeouts'] = {'P1': timeout}
        cfg['T'] = timeout
        reals['d1'] = ['0', str(2 * Fraction(timeout) + Fraction(1, 10))]
    if late:
        cfg['late_handlers'] = [['A', '*', 'hLate', [['read_bus'], ['ret', 'late']]]]
    if poll:
        reals['t_p'] = ['0', '1']
        cfg['actors'] = {'poll': [['poll', 't_p', 'P1']]}
    return cfg


def parallel_handlers(order=('A', 'B')):
    """parallel_handlers bus A: two handlers of one event each dispatch (and await) their own child; serial bus B in flight too."""
    handlers = [['A', 'P', 'h1', [['sleep', 'd1'], ['dispawait', 'A', 'C', 'C_{inv}'], ['read_bus'], ['ret', 1]]],
                ['A', 'P', 'h2', [['sleep', 'd2'], ['dispawait', 'B', 'G', 'G_{inv}'], ['read_bus'], ['ret', 2]]],
                ['A', 'C', 'hC', [['sleep', 'd3'], ['ret', 'c']]], ['B', 'G', 'hG', [['sleep', 'd3'], ['ret', 'g']]],
                ['B', 'X', 'hX', [['ret', 'x']]]]
    main = [['root', 'A', 'P', 'P1'], ['root', 'B', 'X', 'X1'], ['await', 'P1'], ['idle', 'A'], ['idle', 'B'],
            ['root', 'A', 'C', 'Cmain'], ['idle', 'A'], ['obs_all', 'end']]
    return dict(buses=['A', 'B'], order=list(order), parallel=['A'], reals={'d1': D, 'd2': D, 'd3': ['0', '1/5']}, handlers=handlers, main=main, horizon=6)


def samefn(order=('A', 'B')):
    """the same handler name on two buses with forwarding A->B, child dispatched to the other bus."""
    handlers = [['A', 'P', 'hP', [['sleep', 'd1'], ['disp', 'B', 'C', 'C_{inv}'], ['ret', 'p']]],
                ['B', 'P', 'hP', [['sleep', 'd1'], ['ret', 'p']]],
                ['B', 'C', 'hC', [['ret', 'c']]], ['A', 'C', 'hC', [['ret', 'c']]]]
    main = [['root', 'A', 'P', 'P1'], ['await', 'P1'], ['idle', 'A'], ['idle', 'B'], ['obs_all', 'end']]
    return dict(buses=['A', 'B'], order=list(order), reals={'d1': D}, handlers=handlers, forwards=[['A', 'B']], main=main, horizon=6)


def perms(names):
    return [list(p) for p in itertools.permutations(names)]


# =========================================================================== feature matrix M1
P_KINDS = ('sleep', 'raise', 'sync_raise', 'sync_ret', 'ff', 'ff_raise', 'await', 'await_then', 'sleep_ff', 'ff_await', 'ff_awaitL_awaitC', 'raise_chained', 'shared')
C_KINDS = ('ret', 'sleep', 'raise', 'two', 'awaitG', 'ffG', 'await_then')
WILD = ('none', 'A', 'B-only', 'busmethod+decoys')
MAINS = ('await', 'redispatch')
TIMEOUTS = ('60', 'None')


def _p_script(kind, i):
    dv = 'd1' if i == 0 else 'd3'
    r = f'p{i}'
    return {
        'sleep': ([['sleep', dv], ['ret', r]], {}),
        'raise': ([['sleep', dv], ['raise', 'ValueError']], {}),
        'sync_raise': ([['raise', 'KeyError']], {'sync': True}),
        'sync_ret': ([['ret', r]], {'sync': True}),
        'ff': ([['disp', 'A', 'C', 'C_{inv}'], ['sleep', dv], ['ret', r]], {}),
        'ff_raise': ([['disp', 'A', 'C', 'C_{inv}'], ['raise', 'ValueError']], {}),
        'await': ([['sleep', dv], ['dispawait', 'A', 'C', 'C_{inv}'], ['ret', r]], {}),
        'await_then': ([['dispawait', 'A', 'C', 'C_{inv}'], ['disp', 'A', 'L', 'L_{inv}'], ['sleep', dv], ['ret', r]], {}),
        'sleep_ff': ([['sleep', dv], ['disp', 'A', 'C', 'C_{inv}'], ['read_bus'], ['ret', r]], {}),
        'ff_await': ([['sleep', dv], ['disp', 'A', 'C', 'C_{inv}'], ['disp', 'A', 'L', 'L_{inv}'], ['await', 'C_{inv}'], ['ret', r]], {}),
        # dispatch C without awaiting, await another event (which makes the inline drain process C first), only then await C
        'ff_awaitL_awaitC': ([['disp', 'A', 'C', 'C_{inv}'], ['dispawait', 'A', 'L', 'L_{inv}'], ['sleep', dv], ['await', 'C_{inv}'], ['ret', r]], {}),
        'raise_chained': ([['sleep', dv], ['raise_chained', 'ValueError']], {}),
        'shared': ([['dispawait_shared', 'A', 'C', 'Cshared'], ['ret', r]], {}),
    }[kind]


def matrix1(par, ph, ch, wild, mainkind, timeout):
    """one (optionally parallel) bus A with two handlers on the root P (kinds ph), child handlers ch, optional wildcard
    handler on A or a wildcard-only observer bus B, unrelated noise, optional re-dispatch of the completed root."""
    handlers = []
    for i, k in enumerate(ph):
        sc, opts = _p_script(k, i)
        handlers.append(['A', 'P', f'hP{i}', sc, opts])
    if ch == 'ret':
        handlers.append(['A', 'C', 'hC0', [['ret', 'c']], {'sync': True}])
    elif ch == 'sleep':
        handlers.append(['A', 'C', 'hC0', [['sleep', 'd2'], ['ret', 'c']]])
    elif ch == 'raise':
        handlers.append(['A', 'C', 'hC0', [['raise', 'Custom']]])
    elif ch == 'two':
        handlers.append(['A', 'C', 'hC0', [['sleep', 'd2'], ['ret', 'c']]])
        handlers.append(['A', 'C', 'hC1', [['raise', 'ValueError']], {'sync': True}])
    elif ch == 'awaitG':
        handlers.append(['A', 'C', 'hC0', [['dispawait', 'A', 'G', 'G_{inv}'], ['sleep', 'd2'], ['ret', 'c']]])
    elif ch == 'ffG':
        handlers.append(['A', 'C', 'hC0', [['disp', 'A', 'G', 'G_{inv}'], ['ret', 'c']]])
    elif ch == 'await_then':
        # the child's handler awaits a grandchild and only then fire-and-forgets another event
        handlers.append(['A', 'C', 'hC0', [['dispawait', 'A', 'G', 'G_{inv}'], ['disp', 'A', 'L', 'L_{inv}'], ['ret', 'c']]])
    if ch == 'ffG':
        handlers.append(['A', 'G', 'hG0', [['sleep', 'd2'], ['ret', 'g']]])
    else:
        handlers.append(['A', 'G', 'hG0', [['ret', 'g']], {'sync': True}])
    handlers.append(['A', 'L', 'hL0', [['ret', 'l']], {'sync': True}])
    handlers.append(['A', 'X', 'hX0', [['ret', 'x']]])
    buses = ['A']
    actors = {}
    reals = {'d1': D, 'd2': ['0', '1/5'], 'd3': D}
    decoys = {}
    if wild == 'busmethod+decoys':
        handlers.append(['A', 'P', 'hBusMethod', [['ret', 'bm']], {'bus_method': True}])
        decoys = {'A': 2}
    if wild == 'A':
        handlers.append(['A', '*', 'hW', [['ret', 'w']]])
    elif wild == 'B-only':
        buses = ['A', 'B']
        handlers.append(['B', '*', 'hWB', [['ret', 'wb']]])
        reals['t1'] = ['0', '2/5']
        actors = {'n': [['sleep', 't1'], ['root', 'B', 'X', 'X2']]}
    main = [['root', 'A', 'P', 'P1'], ['root', 'A', 'X', 'X1'], ['await', 'P1'], ['obs', 'after_await', 'P1']]
    if mainkind == 'redispatch':
        main += [['idle', 'A'], ['redispatch', 'A', 'P1']]
    main += [['idle', b] for b in buses] + [['obs_all', 'end']]
    cfg = dict(buses=buses, order=buses, parallel=['A'] if par else [], reals=reals, handlers=handlers, main=main, actors=actors,
               horizon=6, timeouts={'P1': None if timeout == 'None' else timeout}, decoys=decoys,
               features=dict(par=par, ph=list(ph), ch=ch, wild=wild, main=mainkind, timeout=timeout))
    # drop unused reals (keeps the domain minimal)
    used = json_dumps(cfg['handlers']) + json_dumps(actors)
    for v in list(reals):
        if f'"{v}"' not in used:
            del reals[v]
    return cfg


def json_dumps(x):
    import json
    return json.dumps(x)


def matrix1_id(par, ph, ch, wild, mainkind, timeout):
    return f'm1/{"par" if par else "ser"}/{ph[0]}+{ph[1]}/{ch}/{wild}/{mainkind}/to={timeout}'


def pairwise(domains, must=()):
    """greedy pairwise covering array over `domains` (list of value tuples); `must` rows are always included."""
    import itertools
    rows = [tuple(m) for m in must]
    n = len(domains)
    need = set()
    for i, j in itertools.combinations(range(n), 2):
        for a in domains[i]:
            for b in domains[j]:
                need.add((i, a, j, b))
    def cov(row):
        return {(i, row[i], j, row[j]) for i, j in itertools.combinations(range(n), 2)}
    for r in rows:
        need -= cov(r)
    allrows = list(itertools.product(*domains))
    while need:
        best, bc = None, -1
        # deterministic scan with a stride to keep it fast
        for r in allrows:
            c = len(cov(r) & need)
            if c > bc:
                best, bc = r, c
        rows.append(best)
        need -= cov(best)
    out = []
    for r in rows:
        if r not in out:
            out.append(r)
    return out


PH_PAIRS = (('sleep', 'sleep'), ('raise', 'sleep'), ('sleep', 'raise'), ('sync_raise', 'sleep'), ('await', 'sleep'), ('await', 'raise'),
            ('await_then', 'sleep'), ('await_then', 'sync_ret'), ('ff', 'sleep'), ('ff_raise', 'sleep'), ('sleep_ff', 'sleep_ff'),
            ('sleep_ff', 'raise'), ('await', 'sleep_ff'), ('ff', 'ff_raise'), ('raise', 'sync_ret'), ('await_then', 'raise'), ('ff_await', 'sleep'),
            ('ff_awaitL_awaitC', 'sleep'), ('raise_chained', 'sleep'), ('shared', 'shared'))


def matrix1_rows(tier):
    doms = [(False, True), PH_PAIRS, C_KINDS, WILD, MAINS, TIMEOUTS]
    must = [
        (True, ('raise', 'sleep'), 'ret', 'none', 'await', '60'),
        (True, ('sleep_ff', 'sleep_ff'), 'sleep', 'none', 'await', 'None'),
        (False, ('await_then', 'sleep'), 'raise', 'none', 'await', '60'),
        (False, ('raise', 'sleep'), 'ret', 'none', 'redispatch', '60'),
        (False, ('await', 'sleep'), 'awaitG', 'A', 'await', '60'),
        (False, ('sleep', 'sleep'), 'ret', 'B-only', 'await', '60'),
        (True, ('await', 'sleep'), 'sleep', 'B-only', 'await', '60'),
        (True, ('await', 'sleep'), 'two', 'none', 'await', '60'),
        (False, ('ff_await', 'sleep'), 'ret', 'none', 'await', '60'),
        (False, ('ff_await', 'sleep'), 'sleep', 'A', 'await', '60'),
        (False, ('ff_awaitL_awaitC', 'sleep'), 'ffG', 'none', 'await', '60'),
        (False, ('raise_chained', 'sleep'), 'ret', 'none', 'await', '60'),
        (False, ('await', 'sleep'), 'ffG', 'none', 'await', '60'),
        (False, ('await', 'sleep'), 'sleep', 'busmethod+decoys', 'await', '60'),
        (True, ('await_then', 'sleep'), 'ret', 'busmethod+decoys', 'redispatch', '60'),
        (True, ('shared', 'shared'), 'sleep', 'none', 'await', '60'),
        (False, ('shared', 'shared'), 'ret', 'none', 'await', '60'),
        (False, ('await', 'sleep'), 'await_then', 'none', 'await', '60'),
    ]
    rows = pairwise(doms, must)
    if tier == 'thorough':
        import itertools
        import random
        rng = random.Random(12345)
        allrows = list(itertools.product(*doms))
        rng.shuffle(allrows)
        for r in allrows[:400]:
            if r not in rows:
                rows.append(r)
    return rows


# =========================================================================== feature matrix M2 (time-outs)
M2_PH = ('sleep', 'await', 'await_first', 'ff', 'ff_await_later', 'sleep_cleanup')
M2_SECOND = ('none', 'sync_ret', 'sleep')
M2_CH = ('ret', 'raise', 'sleep', 'two', 'two_raise_first', 'awaitG', 'ffG', 'awaitG_L')
M2_GH = ('ret', 'two')


def matrix2(par, ph, second, ch, gh, T='1/4', timed='P1'):
    """root P with event_timeout T; its first handler follows ph; children C / grandchildren G with several handler set-ups
    (a second handler that has not started when the time-out fires, an errored first handler, ...); a later event L."""
    from fractions import Fraction
    hi = str(2 * Fraction(T) + Fraction(1, 10))
    reals = {'d1': ['0', hi], 'd2': ['0', hi], 'd4': ['0', hi]}
    hp = {
        'sleep': [['sleep', 'd1'], ['ret', 'p']],
        'await': [['sleep', 'd1'], ['dispawait', 'A', 'C', 'C1'], ['sleep', '1/10'], ['ret', 'p']],
        'await_first': [['dispawait', 'A', 'C', 'C1'], ['sleep', 'd1'], ['ret', 'p']],
        'ff': [['disp', 'A', 'C', 'C1'], ['sleep', 'd1'], ['ret', 'p']],
        'ff_await_later': [['disp', 'A', 'C', 'C1'], ['sleep', 'd1'], ['await', 'C1'], ['ret', 'p']],
        # when cancelled (time-out) the handler needs 0.3 s to clean up
        'sleep_cleanup': [['sleep_cleanup', 'd1', '3/10'], ['ret', 'p']],
    }[ph]
    handlers = [['A', 'P', 'hP', hp]]
    if second == 'sync_ret':
        handlers.append(['A', 'P', 'hP2', [['ret', 'p2']], {'sync': True}])
    elif second == 'sleep':
        handlers.append(['A', 'P', 'hP2', [['sleep', '1/20'], ['ret', 'p2']]])
    if ch == 'ret':
        handlers.append(['A', 'C', 'hC', [['ret', 'c']], {'sync': True}])
    elif ch == 'raise':
        handlers.append(['A', 'C', 'hC', [['raise', 'ValueError']], {'sync': True}])
    elif ch == 'sleep':
        handlers.append(['A', 'C', 'hC', [['sleep', 'd2'], ['ret', 'c']]])
    elif ch == 'two':
        handlers.append(['A', 'C', 'hC', [['sleep', 'd2'], ['ret', 'c']]])
        handlers.append(['A', 'C', 'hC2', [['ret', 'c2']], {'sync': True}])
    elif ch == 'two_raise_first':
        handlers.append(['A', 'C', 'hC', [['raise', 'ValueError']], {'sync': True}])
        handlers.append(['A', 'C', 'hC2', [['sleep', 'd2'], ['ret', 'c2']]])
    elif ch == 'awaitG':
        handlers.append(['A', 'C', 'hC', [['dispawait', 'A', 'G', 'G1'], ['sleep', 'd2'], ['ret', 'c']]])
    elif ch == 'ffG':
        handlers.append(['A', 'C', 'hC', [['disp', 'A', 'G', 'G1'], ['sleep', 'd2'], ['ret', 'c']]])
    elif ch == 'awaitG_L':
        # depth 4: C awaits G, G awaits X-typed leaf with two handlers (the second not started while the first sleeps)
        handlers.append(['A', 'C', 'hC', [['dispawait', 'A', 'G', 'G1'], ['ret', 'c']]])
        handlers.append(['A', 'G', 'hG', [['dispawait', 'A', 'X', 'X1'], ['sleep', 'd2'], ['ret', 'g']]])
        handlers.append(['A', 'X', 'hX', [['sleep', 'd4'], ['ret', 'x']]])
        handlers.append(['A', 'X', 'hX2', [['ret', 'x2']], {'sync': True}])
    if ch in ('awaitG', 'ffG'):
        handlers.append(['A', 'G', 'hG', [['sleep', 'd4'], ['ret', 'g']]])
        if gh == 'two':
            handlers.append(['A', 'G', 'hG2', [['ret', 'g2']], {'sync': True}])
    handlers.append(['A', 'L', 'hL', [['ret', 'l']], {'sync': True}])
    main = [['root', 'A', 'P', 'P1'], ['root', 'A', 'L', 'L1'], ['idle', 'A'], ['obs_all', 'after_idle']]
    cfg = dict(buses=['A'], order=['A'], parallel=['A'] if par else [], reals=reals, handlers=handlers, main=main, horizon=6, settle='1/2',
               actors={'w': [['await', 'P1'], ['obs', 'after_await', 'P1']]},
               timeouts={timed: T}, T=T, features=dict(par=par, ph=ph, second=second, ch=ch, gh=gh, timed=timed), m2=True)
    # observe the child shortly after the (earliest possible) time-out instant
    cfg['actors']['poll'] = [['poll_if', str(Fraction(T) + Fraction(1, 100)), 'C1'], ['poll_if', str(Fraction(T) + Fraction(1, 20)), 'C1']]
    # an independent task awaits the child from outside any handler
    cfg['actors']['wc'] = [['sleep', str(Fraction(T) / 2)], ['await_if', 'C1']]
    used = json_dumps(handlers)
    for v in list(reals):
        if f'"{v}"' not in used:
            del reals[v]
    return cfg


def matrix2_id(par, ph, second, ch, gh, T='1/4', timed='P1'):
    return f'm2/{"par" if par else "ser"}/{ph}/{second}/{ch}/{gh}' + ('' if timed == 'P1' else f'/timed={timed}')


def matrix2_rows(tier):
    doms = [(False, True), M2_PH, M2_SECOND, M2_CH, M2_GH]
    must = [
        (False, 'await', 'sync_ret', 'awaitG', 'two'),
        (False, 'await', 'none', 'ffG', 'two'),
        (True, 'await', 'none', 'two', 'ret'),
        (False, 'ff_await_later', 'none', 'two_raise_first', 'ret'),
        (False, 'await_first', 'sync_ret', 'raise', 'ret'),
        (False, 'await', 'none', 'awaitG_L', 'ret'),
        (False, 'await_first', 'sync_ret', 'awaitG_L', 'ret'),
        (False, 'sleep_cleanup', 'sync_ret', 'ret', 'ret'),
        (False, 'sleep_cleanup', 'sleep', 'ret', 'ret'),
    ]
    rows = pairwise(doms, must)
    # gh only matters with grandchildren
    rows = [r for r in rows if r[3] in ('awaitG', 'ffG') or r[4] == 'ret']
    # the time-out on the awaited child instead of on the root (the root's handler survives and goes on awaiting)
    for ch_ in ('sleep', 'two', 'awaitG', 'awaitG_L'):
        for ph_ in ('await', 'await_first'):
            rows.append((False, ph_, 'none', ch_, 'two' if ch_ == 'awaitG' else 'ret', '1/4', 'C1'))
    if tier == 'thorough':
        import itertools
        for r in itertools.product(*doms):
            if (r[3] in ('awaitG', 'ffG') or r[4] == 'ret') and r not in rows:
                rows.append(r)
    return rows



def deep_ff_chain():
    """P's handler awaits C; C's handler fire-and-forgets G; G's handler fire-and-forgets L (slow): the awaited child is complete
    only when the whole un-awaited chain below it is."""
    handlers = [['A', 'P', 'hP', [['sleep', 'd1'], ['dispawait', 'A', 'C', 'C1'], ['ret', 'p']]],
                ['A', 'C', 'hC', [['disp', 'A', 'G', 'G1'], ['ret', 'c']]],
                ['A', 'G', 'hG', [['disp', 'A', 'L', 'L1'], ['sleep', 'd2'], ['ret', 'g']]],
                ['A', 'L', 'hL', [['sleep', 'd3'], ['ret', 'l']]]]
    main = [['root', 'A', 'P', 'P1'], ['await', 'P1'], ['idle', 'A'], ['obs_all', 'end']]
    return dict(buses=['A'], reals={'d1': ['0', '1/5'], 'd2': ['0', '1/5'], 'd3': ['0', '1/5']}, handlers=handlers, main=main, horizon=5)


def fw_evict(order=('D', 'A', 'B', 'C')):
    """a handler on D awaits P dispatched to A (forwarded A->B->C) and then floods B (max_history_size=3) with noise before B's
    run loop gets to the forwarded event: the forwarded, already 'completed' event is evicted from B's history while still queued."""
    handlers = [['D', 'X', 'hD', [['dispawait', 'A', 'P', 'P1'], ['disp', 'B', 'L', 'L0'], ['disp', 'B', 'L', 'L1'], ['disp', 'B', 'L', 'L2'],
                                  ['disp', 'B', 'L', 'L3'], ['sleep', 'd1'], ['ret', 'd']]],
                ['A', 'P', 'hA', [['ret', 'a']]], ['B', 'P', 'hB', [['sleep', 'd2'], ['ret', 'b']]], ['C', 'P', 'hC', [['ret', 'c']]],
                ['B', 'L', 'hLB', [['ret', 'l']]]]
    main = [['root', 'D', 'X', 'X1'], ['idle', 'D'], ['idle', 'A'], ['idle', 'B'], ['idle', 'C'], ['obs_all', 'end']]
    return dict(buses=['D', 'A', 'B', 'C'], order=list(order), reals={'d1': ['0', '1/5'], 'd2': ['0', '1/5']}, handlers=handlers,
                forwards=[['A', 'B'], ['B', 'C']], main=main, max_history={'B': 3}, horizon=6)


def par_await_two_later():
    """parallel bus: a handler awaits a child that has a failing and a slow handler; an unrelated event arrives during the await."""
    handlers = [['A', 'P', 'hP', [['dispawait', 'A', 'C', 'C1'], ['ret', 'p']]],
                ['A', 'C', 'hC0', [['sleep', 'd2'], ['ret', 'c']]], ['A', 'C', 'hC1', [['sleep', 'd1'], ['raise', 'ValueError']]],
                ['A', 'X', 'hX', [['ret', 'x']]]]
    main = [['root', 'A', 'P', 'P1'], ['await', 'P1'], ['idle', 'A'], ['obs_all', 'end']]
    return dict(buses=['A'], parallel=['A'], reals={'d1': ['0', '1/5'], 'd2': ['0', '3/10'], 't_x': ['0', '3/10']}, handlers=handlers, main=main,
                actors={'x': [['sleep', 't_x'], ['root', 'A', 'X', 'X1']]}, horizon=5)


def idle_other_bus(order=('A', 'B')):
    """wait_until_idle(B) called by an external task at t_w while a handler of A processes its awaited child inline on B
    (B has been idle before)."""
    cfg = two_bus_await('other_running', order, yield_first=False)
    cfg['reals']['t_w'] = ['0', '1/2']
    cfg['actors'] = {'w': [['sleep', 't_w'], ['idle', 'B']]}
    return cfg


def idle_other_bus_small_history(order=('A', 'B'), n=1):
    """as idle_other_bus, but B keeps only n events: the child processed inline on B awaits a grandchild there (accepting it evicts
    the started child from B's history) and then goes on working (d2) while an external task calls wait_until_idle(B)."""
    handlers = [['A', 'P', 'hP', [['sleep', 'd1'], ['disp', 'B', 'C', 'C1'], ['await', 'C1'], ['ret', 'p']]],
                ['B', 'C', 'hC', [['dispawait', 'B', 'G', 'G1'], ['sleep', 'd2'], ['ret', 'c']]], ['B', 'G', 'hG', [['ret', 'g']]],
                ['B', 'X', 'hX', [['ret', 'x']]]]
    main = [['root', 'B', 'X', 'X0'], ['idle', 'B'], ['root', 'A', 'P', 'P1'], ['await', 'P1'], ['idle', 'A'], ['idle', 'B'], ['obs_all', 'end']]
    return dict(buses=['A', 'B'], order=list(order), max_history={'B': n}, reals={'d1': D, 'd2': D, 't_w': ['0', '1/2']}, handlers=handlers,
                main=main, actors={'w': [['sleep', 't_w'], ['idle', 'B']]}, horizon=6)


def fw_saturated_double():
    """A forwards everything to B twice (two wildcard forwards, both selected before either runs).  A's own handler, which runs first,
    piles other work onto B up to a solver-chosen distance from B's admission limit: depending on n both deliveries are accepted, the
    first is accepted and the second refused, or both are refused.  Whatever B accepted it processes; event_path lists B iff B
    accepted the event."""
    handlers = [['B', 'C', 'hC', [['sleep', '1/20'], ['ret', 'c']]], ['B', 'P', 'hPB', [['read_bus'], ['ret', 'b']]],
                ['A', 'P', 'hPA', [['burst_swallow', 'B', 'C', 'n', 'C'], ['ret', 'a']]]]
    main = [['root', 'A', 'P', 'P1'], ['idle', 'A'], ['idle', 'B'], ['idle', 'A'], ['obs_all', 'end']]
    return dict(buses=['A', 'B'], ints={'n': [47, 51]}, reals={}, handlers=handlers, forwards=[['A', 'B'], ['A', 'B']],
                main=main, max_history={'B': 50}, horizon=12, rejections_expected=True)


def flood_order():
    """the 50-slot queue of a bus with a small history limit is filled to within a solver-chosen distance of full; the first event's
    (async) handler refills the slot its own removal freed, dispatches a child while the queue is (nearly) full and awaits it if it was
    accepted; every other event's synchronous handler tries to dispatch one more event while the queue is being drained.  Whatever
    dispatch() accepted is taken in the order it was accepted (only the awaited child and its descendants may jump ahead)."""
    handlers = [['A', 'P', 'hP', [['disp', 'A', 'C', 'X1', 'swallow'], ['dispawait_swallow', 'A', 'G', 'G1'], ['ret', 'p']]],
                ['A', 'C', 'hC', [['disp', 'A', 'L', 'L_{inv}', 'swallow'], ['ret', 'c']], {'sync': True}],
                ['A', 'G', 'hG', [['ret', 'g']], {'sync': True}], ['A', 'L', 'hL', [['ret', 'l']], {'sync': True}]]
    main = [['root', 'A', 'P', 'P1'], ['burst_swallow', 'A', 'C', 'n', 'C'], ['idle', 'A'], ['obs_all', 'end']]
    return dict(buses=['A'], ints={'n': [47, 51]}, reals={}, handlers=handlers, main=main, max_history={'A': 10}, horizon=6, rejections_expected=True)


def fw_after_refused():
    """B is filled to within a solver-chosen distance of its admission limit and an event is offered to it directly (accepted or
    refused, depending on n); once B has drained, the same event object is dispatched to A, which forwards everything to B.  A refused
    dispatch leaves no trace: B is still reachable through the forward, processes the event once and appears in event_path where it
    actually arrived."""
    handlers = [['B', 'C', 'hC', [['sleep', '1/50'], ['ret', 'c']]], ['B', 'P', 'hPB', [['read_bus'], ['ret', 'b']]], ['A', 'P', 'hPA', [['ret', 'a']]]]
    main = [['burst_swallow', 'B', 'C', 'n', 'C'], ['mkevent', 'P', 'P1'], ['redispatch_swallow', 'B', 'P1'], ['idle', 'B'], ['redispatch', 'A', 'P1'],
            ['idle', 'A'], ['idle', 'B'], ['idle', 'A'], ['obs_all', 'end']]
    return dict(buses=['A', 'B'], ints={'n': [48, 52]}, reals={}, handlers=handlers, forwards=[['A', 'B']], main=main, horizon=8, rejections_expected=True)


def par_child_timeout(T='1/4', poll=False):
    """parallel_handlers bus: a handler awaits a child that has two async handlers (each in its own task); the parent handler's
    time-out T falls before, between or after their ends; the child is observed when the parent's await returns, at the end and
    (poll=True) by a poller at t_p.  Whenever the child is seen complete it
    stays as seen (a sibling handler task that survives the interruption must not find its result already closed)."""
    handlers = [['A', 'P', 'hP', [['dispawait', 'A', 'C', 'C1'], ['ret', 'p']]],
                ['A', 'C', 'hC0', [['sleep', 'd1'], ['ret', 'c0']]], ['A', 'C', 'hC1', [['sleep', 'd2'], ['ret', 'c1']]]]
    main = [['root', 'A', 'P', 'P1'], ['await', 'P1'], ['obs', 'after_await', 'P1'], ['obs_all', 'after_parent'], ['idle', 'A'], ['sleep', '1'], ['obs_all', 'end']]
    cfg = dict(buses=['A'], parallel=['A'], reals={'d1': ['0', '1/2'], 'd2': ['0', '1/2']}, handlers=handlers, main=main,
               timeouts={'P1': T}, T=T, horizon=8)
    if poll:
        cfg['reals']['t_p'] = ['0', '1']
        cfg['actors'] = {'poll': [['poll_if', 't_p', 'C1']]}
    return cfg


def cross_ff_grandchild(order=('A', 'B')):
    """a handler on A awaits a child on the other (warm, idle) bus B; the child's handler fire-and-forgets a grandchild back onto A
    (not forwarded: A is not in the child's path and B is not in the grandchild's): the child is complete only when the grandchild
    is, and whoever finishes the grandchild must find its parent on a bus the grandchild never travelled through."""
    handlers = [['A', 'P', 'hP', [['dispawait', 'B', 'C', 'C1'], ['ret', 'p']]],
                ['B', 'C', 'hC', [['sleep', 'd1'], ['disp', 'A', 'G', 'G1'], ['ret', 'c']]],
                ['A', 'G', 'hG', [['sleep', 'd2'], ['ret', 'g']]], ['B', 'X', 'hX', [['ret', 'x']]], ['A', 'X', 'hXA', [['ret', 'x']]]]
    main = [['root', 'B', 'X', 'X0'], ['idle', 'B'], ['root', 'A', 'X', 'XA0'], ['idle', 'A'], ['root', 'A', 'P', 'P1'], ['await', 'P1'],
            ['obs', 'after_await', 'P1'], ['idle', 'A'], ['idle', 'B'], ['obs_all', 'end']]
    return dict(buses=['A', 'B'], order=list(order), reals={'d1': D, 'd2': D}, handlers=handlers, main=main, horizon=6)


def flood_idle():
    """a burst larger than the queue onto a bus with a small history limit (rejections swallowed), then wait_until_idle()."""
    handlers = [['A', 'C', 'hC', [['ret', 'c']]]]
    main = [['burst_swallow', 'A', 'C', 'n', 'C'], ['idle', 'A'], ['obs_all', 'end']]
    return dict(buses=['A'], ints={'n': [48, 53]}, reals={}, handlers=handlers, main=main, max_history={'A': 10}, horizon=5, rejections_expected=True)


# =========================================================================== sequence family M3 (generated operation sequences)
def seq_program(idx, sym=('d1', 'd2', 't1'), ext=False):
    """A pseudo-randomly generated (seeded by idx, hence deterministic) two-bus program: handler kinds with children on the own or
    the other bus, and a main script mixing dispatches, sleeps of symbolic length, (late) awaits, idle waits, late registration of
    a wildcard handler and re-dispatch of completed events. Both buses are first used from main (not inside a handler)."""
    import random
    rng = random.Random(1000 + idx)
    parB = rng.random() < 0.3
    kinds = ['ret', 'sleep', 'raise', 'ffA', 'ffB', 'awaitA', 'awaitB', 'await_then_ffB', 'sleep_ffB']
    nP = rng.choice([1, 2, 2])
    ph = [rng.choice(kinds) for _ in range(nP)]
    chA = rng.choice(['ret', 'sleep', 'two'])
    chB = rng.choice(['ret', 'sleep', 'two', 'ffG'])
    if chB == 'ffG' and any(k in ('awaitB',) for k in ph):
        chB = 'sleep'      # a descendant dispatched to the other, running bus during an inline await is finding F1's mechanism
    handlers = []

    def pscript(k, i):
        dv = 'd1'
        r = f'p{i}'
        return {
            'ret': [['ret', r]], 'sleep': [['sleep', dv], ['ret', r]], 'raise': [['sleep', dv], ['raise', 'ValueError']],
            'ffA': [['disp', 'A', 'C', 'C_{inv}'], ['sleep', dv], ['ret', r]],
            'ffB': [['disp', 'B', 'C', 'C_{inv}'], ['ret', r]],
            'awaitA': [['sleep', dv], ['dispawait', 'A', 'C', 'C_{inv}'], ['ret', r]],
            'awaitB': [['sleep', dv], ['dispawait', 'B', 'C', 'C_{inv}'], ['read_bus'], ['ret', r]],
            'await_then_ffB': [['dispawait', 'A', 'C', 'C_{inv}'], ['disp', 'B', 'L', 'L_{inv}'], ['ret', r]],
            'sleep_ffB': [['sleep', dv], ['disp', 'B', 'C', 'C_{inv}'], ['read_bus'], ['ret', r]],
        }[k]
    for i, k in enumerate(ph):
        handlers.append(['A', 'P', f'hP{i}', pscript(k, i)])
    for bus, ch in (('A', chA), ('B', chB)):
        if ch == 'ret':
            handlers.append([bus, 'C', f'hC{bus}', [['ret', 'c']], {'sync': True}])
        elif ch == 'sleep':
            handlers.append([bus, 'C', f'hC{bus}', [['sleep', 'd2'], ['ret', 'c']]])
        elif ch == 'two':
            handlers.append([bus, 'C', f'hC{bus}', [['sleep', 'd2'], ['ret', 'c']]])
            handlers.append([bus, 'C', f'hC{bus}2', [['raise', 'KeyError']], {'sync': True}])
        elif ch == 'ffG':
            handlers.append([bus, 'C', f'hC{bus}', [['disp', bus, 'G', 'G_{inv}'], ['ret', 'c']]])
            handlers.append([bus, 'G', f'hG{bus}', [['sleep', 'd2'], ['ret', 'g']]])
    handlers += [['A', 'X', 'hXA', [['ret', 'x']]], ['B', 'X', 'hXB', [['ret', 'x']]], ['B', 'L', 'hLB', [['ret', 'l']], {'sync': True}],
                 ['A', 'G', 'hGA0', [['ret', 'g']], {'sync': True}]]
    # ---- main script
    main = [['root', 'B', 'X', 'X0'], ['idle', 'B']]     # B is first used from main and has been idle once
    roots = []
    awaited = set()
    registered = False
    nops = rng.randint(4, 6)
    nidle = 0
    nsleep = 0
    for j in range(nops):
        ops = ['rootP', 'rootX', 'sleep', 'idle']
        if roots:
            ops += ['await', 'await']
        if awaited:
            ops += ['redispatch']
        if not registered:
            ops += ['register']
        op = rng.choice(ops)
        if op == 'rootP' and len(roots) < 2:
            lab = f'P{len(roots) + 1}'
            roots.append(lab)
            main.append(['root', 'A', 'P', lab])
        elif op == 'rootX':
            main.append(['root', rng.choice(['A', 'B']), 'X', f'Xm{j}'])
        elif op == 'sleep' and nsleep < 1:
            nsleep += 1
            main.append(['sleep', 't1'])
        elif op == 'idle' and nidle < 1:
            nidle += 1
            main.append(['idle', rng.choice(['A', 'B'])])
        elif op == 'await':
            lab = rng.choice(roots)
            main.append(['await', lab])
            main.append(['obs', 'after_await', lab])
            awaited.add(lab)
        elif op == 'redispatch':
            lab = rng.choice(sorted(awaited))
            main += [['idle', 'A'], ['redispatch', 'A', lab]]
        elif op == 'register':
            registered = True
            main.append(['register', rng.choice(['A', 'B']), '*', 'hLateW'])
    if not roots:
        main.append(['root', 'A', 'P', 'P1'])
        roots.append('P1')
    for lab in roots:
        if lab not in awaited:
            main += [['await', lab], ['obs', 'after_await', lab]]
    main += [['idle', 'A'], ['idle', 'B'], ['obs_all', 'end']]
    reals = {'d1': ['0', '1/4'], 'd2': ['0', '1/5'], 't1': ['0', '3/10']}
    order = ['A', 'B'] if rng.random() < 0.5 else ['B', 'A']
    timed = rng.random() < 0.3          # drawn last so that the programs generated before this feature existed stay the same
    cfg = dict(buses=['A', 'B'], order=order, parallel=['B'] if parB else [], reals=reals,
               handlers=handlers, main=main, horizon=7, m3=True, features=dict(ph=ph, chA=chA, chB=chB, parB=parB, timed=timed))
    if timed:
        # the first root carries a short event time-out; its handlers' durations range beyond it
        cfg['timeouts'] = {'P1': '1/4'}
        cfg['T'] = '1/4'
        reals['d1'] = ['0', '3/5']
    if ext:
        # family M4: the same programs with further ingredients, drawn from a separate stream so that M3 stays what it was:
        # synchronous work after a dispatch (time passes without the loop running), an external dispatch a solver-chosen number of
        # loop iterations after t1 (same-instant orderings), a background task spawned by a handler, reading completed events
        # through every accessor
        rng2 = random.Random(5000 + idx)
        feats = cfg['features']
        if rng2.random() < 0.5:
            pos = [i for i, st in enumerate(main) if st[0] == 'root' and i > 1]
            if pos:
                main.insert(rng2.choice(pos) + 1, ['block', 'b'])
                reals['b'] = ['0', '3/20']
                feats['block'] = True
        if rng2.random() < 0.5:
            cfg['actors'] = {'s': [['sleep', 't1'], ['sleep_steps', 'k'], ['root', rng2.choice(['A', 'B']), 'X', 'Xa']]}
            cfg['ints'] = {'k': [0, 6]}
            reals.setdefault('t1', ['0', '3/10'])
            feats['steps_actor'] = True
        rng2.random()     # (a background task spawned by a handler was tried here: with the handler's inherited context it acts as a
        #                    second inline processor, i.e. findings F0/F6/F20 in every program — kept to the hand-picked C08 scenario)
        if rng2.random() < 0.5:
            for i, st in enumerate(list(main)):
                if st[0] == 'obs' and st[1] == 'after_await':
                    main.insert(i + 1, ['accessors_all', st[2]])
                    feats['accessors'] = True
                    break
        cfg['m4'] = True
    used = json_dumps(handlers) + json_dumps(main) + json_dumps(cfg.get('actors', {}))
    for v in list(reals):
        if f'"{v}"' not in used:
            del reals[v]
    # variables not in `sym` are pinned (quick tier: fewer symbolic reals per program, more programs)
    pins = {'d1': '1/8', 'd2': '7/100', 't1': '13/100', 'b': '3/25'}
    for v in list(reals):
        if v not in sym:
            reals[v] = [pins[v], pins[v]]
    return cfg


def matrix3_rows(tier):
    return list(range(48 if tier == 'quick' else 240))


def matrix4_rows(tier):
    return list(range(16 if tier == 'quick' else 120))



def par_parent_serial_child(order=('A', 'B')):
    """parallel bus A: one handler awaits a child on serial bus B (the child has a slow first and a second handler), a sibling
    handler raises meanwhile."""
    handlers = [['A', 'P', 'hA0', [['dispawait', 'B', 'C', 'C1'], ['ret', 'a0']]],
                ['A', 'P', 'hA1', [['sleep', 'd1'], ['raise', 'ValueError']]],
                ['B', 'C', 'hC0', [['sleep', 'd2'], ['ret', 'c0']]], ['B', 'C', 'hC1', [['ret', 'c1']]],
                ['B', 'X', 'hX', [['ret', 'x']]]]
    main = [['root', 'B', 'X', 'X0'], ['idle', 'B'], ['root', 'A', 'P', 'P1'], ['await', 'P1'], ['idle', 'A'], ['idle', 'B'], ['obs_all', 'end']]
    return dict(buses=['A', 'B'], order=list(order), parallel=['A'], reals={'d1': ['0', '3/10'], 'd2': ['0', '3/10']}, handlers=handlers, main=main, horizon=6)


def fw_late_await(order=('A', 'B'), target_handlers=True):
    """A forwards to B; a handler of A registered after the forward awaits a child, so the forwarded event is processed on B
    (inline) while that handler of A is still running: the event is in flight on two buses at once."""
    cfg = forward_chain(2, topo='chain', order=order)
    cfg['late_handlers'] = [['A', '*', 'hLate', [['only', 'P'], ['dispawait', 'A', 'C', 'C_{inv}'], ['sleep', 'd1'], ['ret', 'late']]]]
    cfg['handlers'] += [['A', 'C', 'hCA', [['ret', 'c']], {'sync': True}], ['B', 'C', 'hCB', [['ret', 'c']], {'sync': True}]]
    if not target_handlers:
        cfg['handlers'] = [h for h in cfg['handlers'] if h[0] != 'B']
    # an unrelated root queued behind P1 on A
    cfg['main'] = [['root', 'A', 'P', 'P1'], ['root', 'A', 'L', 'L1']] + cfg['main'][1:]
    return cfg


def fw_deep4():
    """A forwards everything to B; a chain of nested awaited children four levels deep on A, every level passing the forward."""
    handlers = [['A', 'P', 'hP', [['dispawait', 'A', 'C', 'C1'], ['ret', 'p']]], ['A', 'C', 'hC', [['dispawait', 'A', 'G', 'G1'], ['ret', 'c']]],
                ['A', 'G', 'hG', [['dispawait', 'A', 'L', 'L1'], ['ret', 'g']]], ['A', 'L', 'hL', [['sleep', 'd1'], ['ret', 'l']]],
                ['B', 'P', 'hPB', [['ret', 'pb']]], ['B', 'C', 'hCB', [['ret', 'cb']]], ['B', 'G', 'hGB', [['ret', 'gb']]],
                ['B', 'L', 'hLB', [['sleep', 'd2'], ['ret', 'lb']]]]
    main = [['root', 'B', 'X', 'X0'], ['idle', 'B'], ['root', 'A', 'P', 'P1'], ['await', 'P1'], ['idle', 'A'], ['idle', 'B'], ['obs_all', 'end']]
    return dict(buses=['A', 'B'], order=['A', 'B'], reals={'d1': ['0', '1/5'], 'd2': ['0', '1/5']}, handlers=handlers + [['B', 'X', 'hXB', [['ret', 'x']]]],
                forwards=[['A', 'B']], main=main, horizon=6)


def three_bus_stop(order=('A', 'B', 'C')):
    """A is in a slow handler; B has dequeued an event and waits for the global lock; B is stopped at t_s; C has an event queued."""
    handlers = [['A', 'P', 'hA', [['sleep', 'd1'], ['ret', 'a']]], ['B', 'X', 'hB', [['sleep', 'd2'], ['ret', 'b']]], ['C', 'L', 'hC', [['sleep', 'd2'], ['ret', 'c']]]]
    main = [['root', 'A', 'P', 'P1'], ['sleep', '1/20'], ['root', 'B', 'X', 'X1'], ['root', 'C', 'L', 'L1'], ['sleep', 't_s'], ['stop', 'B'], ['idle', 'A'], ['idle', 'C'],
            ['root', 'A', 'P', 'P2'], ['root', 'C', 'L', 'L2'], ['idle', 'A'], ['idle', 'C'], ['obs_all', 'end']]
    return dict(buses=['A', 'B', 'C'], order=list(order), reals={'d1': ['1/10', '2/5'], 'd2': ['0', '1/5'], 't_s': ['0', '2/5']}, handlers=handlers, main=main, horizon=7,
                rejections_expected=True)


def mixed_bus_classes(first='A'):
    """a plain bubus.EventBus (B) next to an application subclass of EventBus (A); which of them processes an event first is varied."""
    handlers = [['A', 'P', 'hA', [['sleep', 'd1'], ['ret', 'a']]], ['B', 'X', 'hB', [['sleep', 'd2'], ['ret', 'b']]]]
    warm = [['root', 'A', 'P', 'P0'], ['idle', 'A'], ['root', 'B', 'X', 'X0'], ['idle', 'B']] if first == 'A' else [['root', 'B', 'X', 'X0'], ['idle', 'B'], ['root', 'A', 'P', 'P0'], ['idle', 'A']]
    main = warm + [['root', 'A', 'P', 'P1'], ['sleep', 't1'], ['root', 'B', 'X', 'X1'], ['root', 'A', 'P', 'P2'], ['idle', 'A'], ['idle', 'B'], ['obs_all', 'end']]
    return dict(buses=['A', 'B'], order=['A', 'B'], plain_buses=['B'], reals={'d1': ['0', '3/10'], 'd2': ['0', '3/10'], 't1': ['0', '3/10']}, handlers=handlers, main=main, horizon=7)



def wal_unserialisable():
    """a bus with a write-ahead log processes an event whose payload has no JSON form, between ordinary events."""
    handlers = [['A', 'P', 'hP', [['sleep', 'd1'], ['ret', 'p']]], ['A', 'U', 'hU', [['ret', 'u']]], ['A', 'L', 'hL', [['ret', 'l']]]]
    main = [['root', 'A', 'P', 'P1'], ['root', 'A', 'U', 'U1'], ['root', 'A', 'L', 'L1'], ['idle', 'A'], ['obs_all', 'end']]
    return dict(buses=['A'], wal=['A'], reals={'d1': ['0', '1/5']}, handlers=handlers, main=main, horizon=5)



def timeout_during_wal(T='1/4'):
    """a bus with a WAL whose writes take a symbolic time dw: the parent handler's time-out can land while the awaited child's WAL line
    is being written (inside the parent handler's task)."""
    from fractions import Fraction
    hi = str(2 * Fraction(T))
    handlers = [['A', 'P', 'hP', [['sleep', 'd1'], ['dispawait', 'A', 'C', 'C1'], ['sleep', '1/10'], ['ret', 'p']]],
                ['A', 'C', 'hC', [['ret', 'c']], {'sync': True}], ['A', 'L', 'hL', [['ret', 'l']], {'sync': True}]]
    main = [['root', 'A', 'P', 'P1'], ['idle', 'A'], ['root', 'A', 'L', 'L1'], ['idle', 'A'], ['obs_all', 'end']]
    return dict(buses=['A'], wal=['A'], wal_io='dw', reals={'d1': ['0', hi], 'dw': ['0', hi]}, handlers=handlers, main=main, horizon=6,
                timeouts={'P1': T}, T=T, m2=True)



def deep4(mode='await', wild_raise=False):
    """four nesting levels with a different handler on every level (no recursion at all); optionally a wildcard handler that
    raises on every level."""
    step = (lambda b, c, l: ['dispawait', b, c, l]) if mode == 'await' else (lambda b, c, l: ['disp', b, c, l])
    handlers = [['A', 'P', 'hP', [step('A', 'C', 'C1'), ['ret', 'p']]], ['A', 'C', 'hC', [step('A', 'G', 'G1'), ['ret', 'c']]],
                ['A', 'G', 'hG', [step('A', 'L', 'L1'), ['ret', 'g']]], ['A', 'L', 'hL', [['sleep', 'd1'], ['ret', 'l']]]]
    if wild_raise:
        handlers.append(['A', '*', 'hWR', [['raise', 'ValueError']], {'sync': True}])
    main = [['root', 'A', 'P', 'P1'], ['await', 'P1'], ['idle', 'A'], ['obs_all', 'end']]
    return dict(buses=['A'], reals={'d1': ['0', '1/5']}, handlers=handlers, main=main, horizon=5)


def late_first_use(order=('A', 'B', 'C')):
    """A and C are warm; while A is in the middle of a slow handler, main uses bus B for the very first time."""
    handlers = [['A', 'P', 'hA', [['sleep', 'd1'], ['ret', 'a']]], ['B', 'X', 'hB', [['sleep', 'd2'], ['ret', 'b']]], ['C', 'L', 'hC', [['sleep', 'd2'], ['ret', 'c']]]]
    main = [['root', 'A', 'P', 'P0'], ['root', 'C', 'L', 'L0'], ['idle', 'A'], ['idle', 'C'], ['root', 'A', 'P', 'P1'], ['sleep', 't1'], ['root', 'B', 'X', 'X1'],
            ['idle', 'A'], ['idle', 'B'], ['root', 'A', 'P', 'P2'], ['root', 'C', 'L', 'L2'], ['idle', 'A'], ['idle', 'C'], ['obs_all', 'end']]
    return dict(buses=['A', 'B', 'C'], order=list(order), reals={'d1': ['1/10', '2/5'], 'd2': ['0', '1/5'], 't1': ['0', '3/10']}, handlers=handlers, main=main, horizon=8)



def fw_same_names():
    """three live buses that all asked for the same name (the library auto-renames the 2nd and 3rd), forwarding between the renamed
    ones."""
    handlers = [['A', 'P', 'hA', [['ret', 'a']]], ['B', 'P', 'hB', [['sleep', 'd1'], ['ret', 'b']]], ['C', 'P', 'hC', [['ret', 'c']]]]
    main = [['root', 'B', 'P', 'P1'], ['await', 'P1'], ['idle', 'A'], ['idle', 'B'], ['idle', 'C'], ['root', 'A', 'P', 'P2'], ['idle', 'A'], ['idle', 'B'], ['idle', 'C'], ['obs_all', 'end']]
    return dict(buses=['A', 'B', 'C'], order=['A', 'B', 'C'], bus_names={'A': 'Worker', 'B': 'Worker', 'C': 'Worker'}, reals={'d1': ['0', '1/5']},
                handlers=handlers, forwards=[['B', 'C'], ['A', 'B']], main=main, horizon=7)


def fw_idle_then_stop():
    """A forwards to a warm, idle bus B; right after awaiting the event on A, main gracefully stops B (stop with a timeout waits for
    idle first): the forwarded event must still be processed by B."""
    handlers = [['A', 'P', 'hA', [['sleep', 'd1'], ['ret', 'a']]], ['B', 'P', 'hB', [['sleep', 'd2'], ['ret', 'b']]], ['B', 'X', 'hXB', [['ret', 'x']]]]
    main = [['root', 'B', 'X', 'X0'], ['idle', 'B'], ['root', 'A', 'P', 'P1'], ['await', 'P1'], ['stop', 'B', {'timeout': 2.0}], ['idle', 'A'], ['obs_all', 'end']]
    return dict(buses=['A', 'B'], order=['A', 'B'], reals={'d1': ['0', '1/5'], 'd2': ['0', '1/5']}, handlers=handlers, forwards=[['A', 'B']], main=main, horizon=7)



def fw_target_cleared_then_timeout():
    """A forwards to B *before* its own slow handler runs (the forward is registered first), B is stopped with clear=True while that
    handler is still running (B disappears from the registry: event.event_bus can no longer be resolved), then the handler exceeds
    the event's time-out; A must still complete the event and become idle."""
    handlers = [['B', 'P', 'hB', [['ret', 'b']]], ['A', 'P', 'hA', [['sleep', 'd1'], ['ret', 'a']]], ['A', 'L', 'hL', [['ret', 'l']]]]
    # (L events are not forwarded: dispatching to a stopped bus is another matter, F19)
    main = [['root', 'A', 'P', 'P1'], ['sleep', 't1'], ['stop', 'B', {'clear': True}], ['root', 'A', 'L', 'L1'], ['idle', 'A'], ['obs_all', 'end']]
    return dict(buses=['A', 'B'], order=['A', 'B'], reals={'d1': ['0', '3/5'], 't1': ['0', '1/4']}, handlers=handlers,
                typed_forwards_first=[['A', 'B', 'P']], main=main, timeouts={'P1': '1/4'}, T='1/4', horizon=7)



def par_shared_child():
    """parallel bus, nothing else queued: two handlers of P dispatch and await the very same event object in the same loop tick
    (two copies of it in the queue, two concurrent inline processors)."""
    handlers = [['A', 'P', 'hP0', [['dispawait_shared', 'A', 'C', 'Cshared'], ['ret', 'p0']]],
                ['A', 'P', 'hP1', [['dispawait_shared', 'A', 'C', 'Cshared'], ['ret', 'p1']]],
                ['A', 'C', 'hC0', [['sleep', 'd1'], ['ret', 'c0']]], ['A', 'C', 'hC1', [['ret', 'c1']]]]
    main = [['root', 'A', 'P', 'P1'], ['await', 'P1'], ['idle', 'A'], ['obs_all', 'end']]
    return dict(buses=['A'], parallel=['A'], reals={'d1': D}, handlers=handlers, main=main, horizon=5)



def fw_target_loop_died(order=('A', 'B')):
    """A forwards to B.  A handler on B lets a CancelledError escape (it awaited something that was cancelled), which ends B's run
    loop task on its own; an event dispatched to A later is forwarded to B and must still be processed there (B restarts)."""
    handlers = [['A', 'P', 'hA', [['ret', 'a']]], ['B', 'P', 'hB', [['sleep', 'd1'], ['ret', 'b']]],
                ['B', 'L', 'hLB', [['raise', 'CancelledError']]]]
    main = [['root', 'B', 'L', 'L0'], ['sleep', 't1'], ['root', 'A', 'P', 'P1'], ['await', 'P1'], ['sleep', '1'], ['obs_all', 'end']]
    return dict(buses=['A', 'B'], order=list(order), reals={'d1': D, 't1': ['1/100', '3/10']}, handlers=handlers, forwards=[['A', 'B']], main=main, horizon=7)



def read_after_completion(parallel=False):
    """three handlers return lists / dicts; after the event has been observed complete it is read through every result accessor,
    twice, with observations in between: reading must not change what was recorded."""
    handlers = [['A', 'P', 'hP0', [['sleep', 'd1'], ['ret', ['x1', 'x2']]]], ['A', 'P', 'hP1', [['ret', ['y1']]]],
                ['A', 'P', 'hP2', [['ret', ['z1', 'z2']]]], ['A', 'L', 'hL0', [['ret', {'a': 1}]]], ['A', 'L', 'hL1', [['ret', {'b': 2}]]]]
    main = [['root', 'A', 'P', 'P1'], ['root', 'A', 'L', 'L1'], ['await', 'P1'], ['obs', 'after_await', 'P1'], ['await', 'L1'], ['obs', 'after_await', 'L1'],
            ['accessors_all', 'P1'], ['accessors_all', 'L1'], ['obs', 'read_once', 'P1'], ['obs', 'read_once', 'L1'],
            ['accessors_all', 'P1'], ['accessors_all', 'L1'], ['idle', 'A'], ['obs_all', 'end']]
    return dict(buses=['A'], parallel=['A'] if parallel else [], reals={'d1': D}, handlers=handlers, main=main, horizon=5)



def spawned_child_between_handlers(first_sync=True, parallel=False):
    """serial bus, two handlers on P: the first starts a background task (not awaited) that dispatches a handler-less child and
    awaits it — the child completes in the gap between the two handlers; the second handler is slow.  An external await on P must
    not return before the second handler is done, and what it returned must not change afterwards."""
    first = [['spawn', [['dispawait', 'A', 'G', 'G1']]], ['ret', 'kicked']]
    handlers = [['A', 'P', 'hP0', first, {'sync': first_sync}], ['A', 'P', 'hP1', [['sleep', 'd1'], ['ret', 'worked']]]]
    main = [['root', 'A', 'P', 'P1'], ['await', 'P1'], ['obs', 'after_await', 'P1'], ['idle', 'A'], ['sleep', '1/2'], ['obs_all', 'end']]
    return dict(buses=['A'], parallel=['A'] if parallel else [], reals={'d1': D}, handlers=handlers, main=main, horizon=6)



def par_same_named_handlers():
    """parallel bus; two handlers of P carry the same function name (closures from one factory; bubus only warns), the first one
    registered is the slow one; another event is queued behind.  Nothing of the next event may start while either is running."""
    handlers = [['A', 'P', 'hDup', [['sleep', 'd1'], ['ret', 'slow']]], ['A', 'P', 'hDup', [['sleep', 'd2'], ['ret', 'fast']]],
                ['A', 'L', 'hL', [['ret', 'l']]], ['B', 'X', 'hX', [['ret', 'x']]]]
    main = [['root', 'B', 'X', 'X0'], ['idle', 'B'], ['root', 'A', 'P', 'P1'], ['root', 'A', 'L', 'L1'], ['root', 'B', 'X', 'X1'],
            ['sleep', '1'], ['obs_all', 'end']]
    return dict(buses=['A', 'B'], order=['A', 'B'], parallel=['A'], reals={'d1': D, 'd2': ['0', '1/10']}, handlers=handlers, main=main, horizon=6)


def warm_other_bus_during_await(order=('A', 'B'), gap=None, prelude=False):
    """B has already processed events (its run loop has been through the global lock before); a handler of A awaits a slow child on
    A while an external task dispatches an unrelated event to B: it must wait until the child (and A's handler) are done."""
    handlers = [['A', 'P', 'hP', [['sleep', 'd1'], ['dispawait', 'A', 'C', 'C1'], ['ret', 'p']]], ['A', 'C', 'hC', [['sleep', 'd2'], ['ret', 'c']]],
                ['B', 'X', 'hX', [['ret', 'x']]]]
    main = [['root', 'B', 'X', 'X0'], ['idle', 'B'], ['root', 'B', 'X', 'X00'], ['idle', 'B'], ['root', 'A', 'P', 'P1'], ['await', 'P1'],
            ['idle', 'A'], ['idle', 'B'], ['obs_all', 'end']]
    cfg = dict(buses=['A', 'B'], order=list(order), reals={'d1': D, 'd2': D, 't_x': TI}, handlers=handlers, main=main,
               actors={'x': [['sleep', 't_x'], ['root', 'B', 'X', 'X1']]}, horizon=6)
    if gap:
        # both buses sit idle for a while (several poll intervals) before the scenario proper starts
        i = main.index(['root', 'A', 'P', 'P1'])
        main.insert(i, ['sleep', gap])
        cfg['actors'] = {'x': [['sleep', gap], ['sleep', 't_x'], ['root', 'B', 'X', 'X1']]}
        cfg['horizon'] = 9
    if prelude:
        cfg['prelude_loop'] = True
    return cfg


def timeout_bystander(two_handlers=False):
    """an unrelated root event X1 with a slow handler is queued behind the timed parent P1; P's handler awaits a child, which (on
    this tree, F0) runs X1 inline first; P's time-out can fire while X1's handler runs.  X1 is nobody's child: it must still
    complete (with an error result) and an external await on it must return."""
    handlers = [['A', 'P', 'hP', [['dispawait', 'A', 'C', 'C1'], ['sleep', 'd1'], ['ret', 'p']]], ['A', 'C', 'hC', [['sleep', 'd2'], ['ret', 'c']]],
                ['A', 'X', 'hX', [['sleep', 'd3'], ['ret', 'x']]], ['A', 'L', 'hL', [['ret', 'l']]]]
    if two_handlers:
        # the bystander has a second handler that has not started when the time-out hits
        handlers.append(['A', 'X', 'hX2', [['ret', 'x2']]])
    main = [['root', 'A', 'P', 'P1'], ['root', 'A', 'X', 'X1'], ['await', 'X1'], ['obs', 'after_await', 'X1'], ['root', 'A', 'L', 'L1'], ['await', 'P1'], ['idle', 'A'], ['obs_all', 'end']]
    return dict(buses=['A'], reals={'d1': ['0', '3/5'], 'd2': ['0', '3/5'], 'd3': ['0', '3/5']}, handlers=handlers, main=main, timeouts={'P1': '1/4'}, T='1/4', horizon=6)


def cyclic_redispatch():
    """a "retry" pattern that makes the event graph cyclic: P's handler fires C without awaiting it, C's handler dispatches the very
    same P object again (P becomes a child of C: P -> C -> P)."""
    handlers = [['A', 'P', 'hP', [['disp', 'A', 'C', 'C_{inv}'], ['ret', 'p']]], ['A', 'C', 'hC', [['sleep', 'd1'], ['redispatch', 'A', 'P1'], ['ret', 'c']]],
                ['A', 'L', 'hL', [['ret', 'l']]]]
    main = [['root', 'A', 'P', 'P1'], ['idle', 'A'], ['root', 'A', 'L', 'L1'], ['idle', 'A'], ['obs_all', 'end']]
    return dict(buses=['A'], reals={'d1': D}, handlers=handlers, main=main, horizon=6)


def accessor_timeout_in_handler():
    """a handler dispatches a child and reads it through event_result(timeout=...) (the README pattern) instead of awaiting it;
    on this tree nobody can process the child meanwhile, so the accessor times out, the handler carries on and returns; the child
    and a later event then run strictly one after the other."""
    handlers = [['A', 'P', 'hP', [['disp', 'A', 'C', 'C1'], ['accessor', 'C1', {'timeout': 0.25}], ['sleep', 'd1'], ['ret', 'p']]],
                ['A', 'C', 'hC', [['sleep', 'd2'], ['ret', 'c']]], ['A', 'L', 'hL', [['sleep', 'd1'], ['ret', 'l']]]]
    main = [['root', 'A', 'P', 'P1'], ['root', 'A', 'L', 'L1'], ['idle', 'A'], ['obs_all', 'end']]
    return dict(buses=['A'], reals={'d1': ['0', '1/5'], 'd2': ['0', '1/2']}, handlers=handlers, main=main, horizon=6)


def fw_stop_source_with_timeout():
    """A forwards to B whose handler is slow; while it runs, main stops A gracefully with stop(timeout=0.3): A itself has nothing
    left to do, the call must come back within its time-out plus the fixed grace period."""
    handlers = [['A', 'P', 'hA', [['ret', 'a']]], ['B', 'P', 'hB', [['sleep', 'd2'], ['ret', 'b']]], ['B', 'X', 'hXB', [['ret', 'x']]]]
    main = [['root', 'B', 'X', 'X0'], ['idle', 'B'], ['root', 'A', 'P', 'P1'], ['sleep', 't1'], ['stop', 'A', {'timeout': 0.3}], ['idle', 'B'], ['obs_all', 'end']]
    return dict(buses=['A', 'B'], order=['A', 'B'], reals={'d2': ['0', '2'], 't1': ['0', '1/5']}, handlers=handlers, forwards=[['A', 'B']], main=main, horizon=9)



def restart_with_new_bus():
    """the application's only bus is torn down with stop(clear=True) while its handler is mid-event and slow to unwind after the
    cancellation; a new bus is created right away and used: its handler must not start while the old handler is still running."""
    handlers = [['A', 'P', 'hP', [['sleep_cleanup', 'd1', 'd2'], ['ret', 'p']]]]
    main = [['root', 'A', 'P', 'P1'], ['sleep', 't1'], ['stop', 'A', {'clear': True}],
            ['new_bus', 'B', [['X', 'hX', [['ret', 'x']]]]], ['root', 'B', 'X', 'X1'], ['sleep', '2'], ['obs_all', 'end']]
    return dict(buses=['A'], order=['A', 'B'], reals={'d1': ['1/5', '1'], 'd2': ['0', '1/2'], 't1': ['0', '1/10']}, handlers=handlers, main=main, horizon=8)



def cross_bus_await_into_sync_only_event(kmax=8):
    """both buses warm.  A handler of B (running since t=0) wakes at d1, dispatches W on A and awaits it; at the very same instant,
    k loop iterations later (k chosen by the solver), an event R that has only synchronous handlers (a relay hop) is dispatched on
    A.  A is a serial bus: R's handlers and W's handlers must not interleave."""
    handlers = [['B', 'P', 'hP', [['sleep', 'd1'], ['dispawait', 'A', 'C', 'C1'], ['ret', 'p']]], ['A', 'C', 'hW', [['sleep', 'd2'], ['ret', 'w']]],
                ['A', 'G', 'hR1', [['ret', 'r1']], {'sync': True}], ['A', 'G', 'hR2', [['ret', 'r2']], {'sync': True}],
                ['A', 'G', 'hR3', [['ret', 'r3']], {'sync': True}], ['A', 'G', 'hR4', [['ret', 'r4']], {'sync': True}],
                ['A', 'X', 'hXA', [['ret', 'x']]], ['B', 'X', 'hXB', [['ret', 'x']]]]
    main = [['root', 'A', 'X', 'XA0'], ['idle', 'A'], ['root', 'B', 'X', 'XB0'], ['idle', 'B'], ['root', 'B', 'P', 'P1'], ['await', 'P1'],
            ['idle', 'A'], ['idle', 'B'], ['obs_all', 'end']]
    return dict(buses=['A', 'B'], order=['A', 'B'], reals={'d1': ['1/100', '3/10'], 'd2': ['0', '1/10']}, ints={'k': [0, kmax]}, handlers=handlers, main=main,
                actors={'r': [['sleep', 'd1'], ['sleep_steps', 'k'], ['root', 'A', 'G', 'R1']]}, horizon=6)



def dispatch_then_block(n_events=1):
    """a warm, idle bus sits in its 0.1 s queue poll; main dispatches at t1 (anywhere in the poll interval) and then does
    synchronous work for b seconds without yielding, so that the poll timer falls due before the run loop gets to look at the
    event: the event must still be processed and wait_until_idle() must return."""
    handlers = [['A', 'X', 'hX', [['ret', 'x']]], ['A', 'P', 'hP', [['sleep', 'd1'], ['ret', 'p']]]]
    main = [['root', 'A', 'X', 'X0'], ['idle', 'A'], ['sleep', 't1'], ['root', 'A', 'P', 'P1'], ['block', 'b']] + \
           ([['root', 'A', 'P', 'P2']] if n_events > 1 else []) + [['idle', 'A'], ['obs_all', 'end']]
    return dict(buses=['A'], reals={'d1': ['0', '1/10'], 't1': ['0', '1/4'], 'b': ['0', '3/20']}, handlers=handlers, main=main, horizon=6)



def expects_then_late_handler():
    """request/response correlation: two overlapping expect() calls on the same event type (the second starts at t1), a permanent
    handler is registered while both wait, the awaited events arrive so that the first expect() finishes first; later events of
    that type must still reach every permanent handler exactly once."""
    handlers = [['A', 'P', 'hP', [['ret', 'p']]]]
    main = [['sleep', 't2'], ['register', 'A', 'P', 'hAudit'], ['sleep', '1/10'], ['root', 'A', 'P', 'P1'], ['await', 'P1'], ['sleep', '1/10'],
            ['root', 'A', 'P', 'P2'], ['await', 'P2'], ['sleep', '1'], ['root', 'A', 'P', 'P3'], ['await', 'P3'], ['root', 'A', 'P', 'P4'], ['await', 'P4'],
            ['idle', 'A'], ['obs_all', 'end']]
    return dict(buses=['A'], reals={'t1': ['0', '1/10'], 't2': ['0', '1/5']}, handlers=handlers, main=main,
                actors={'e1': [['expect', 'A', 'P', '3/5']], 'e2': [['sleep', 't1'], ['expect', 'A', 'P', '2']]}, horizon=8, settle=1)



def many_buses_backlog(n_buses=40, backlog=30):
    """many other live (idle) buses and a backlog of un-awaited events in front of the awaited child: the in-handler await has to
    keep polling until the child is done, however many buses and queued events there are."""
    hp = [['disp', 'A', 'L', f'N{i}'] for i in range(backlog)] + [['dispawait', 'A', 'C', 'C1'], ['ret', 'p']]
    handlers = [['A', 'P', 'hP', hp], ['A', 'C', 'hC', [['sleep', 'd2'], ['ret', 'c']]], ['A', 'L', 'hL', [['ret', 'l']], {'sync': True}]]
    main = [['root', 'A', 'P', 'P1'], ['await', 'P1'], ['idle', 'A'], ['obs_all', 'end']]
    return dict(buses=['A'], decoys={'A': n_buses}, reals={'d2': D}, handlers=handlers, main=main, horizon=6)


def sequential_awaited_children_with_errors(n=4):
    """a handler awaits n children one after the other; every child has a succeeding and a raising handler (the raising one after a
    suspension).  Each child is the parent's child (not its predecessor's), all handlers run once, the parent completes."""
    hp = []
    for i in range(n):
        hp += [['dispawait', 'A', 'C', f'C{i + 1}']]
    hp += [['ret', 'p']]
    handlers = [['A', 'P', 'hP', hp], ['A', 'C', 'hOk', [['ret', 'ok']]], ['A', 'C', 'hBoom', [['sleep', 'd1'], ['raise', 'ValueError']]]]
    main = [['root', 'A', 'P', 'P1'], ['await', 'P1'], ['idle', 'A'], ['obs_all', 'end']]
    return dict(buses=['A'], reals={'d1': ['0', '1/10']}, handlers=handlers, main=main, horizon=6)


def spawned_late_child():
    """a handler starts a background task and returns; the event completes and is observed complete; only then does the leftover
    task dispatch a follow-up event (with the handler's inherited context).  What was observed complete stays as it was."""
    handlers = [['A', 'P', 'hP', [['spawn', [['sleep', 'd3'], ['disp', 'A', 'L', 'Late1'], ['sleep', 'd1']]], ['ret', 'p']]],
                ['A', 'L', 'hL', [['sleep', 'd1'], ['ret', 'l']]]]
    main = [['root', 'A', 'P', 'P1'], ['await', 'P1'], ['obs', 'after_await', 'P1'], ['sleep', 't1'], ['obs', 'later', 'P1'], ['sleep', '1'], ['idle', 'A'], ['obs_all', 'end']]
    return dict(buses=['A'], reals={'d1': ['0', '1/5'], 'd3': ['1/100', '1/5'], 't1': ['0', '2/5']}, handlers=handlers, main=main, horizon=6)



def recur_then_other(rmax=4):
    """a handler re-dispatches its own event type (fire-and-forget) down to a solver-chosen depth; beyond depth 2 the library's
    recursion guard refuses the event (finding F2).  Another event accepted meanwhile, queued behind, must still be processed."""
    handlers = [['A', 'R', 'hR', [['disp', 'A', 'L', 'La_{inv}'], ['recur', 'A', 'r', 'ff'], ['disp', 'A', 'L', 'Lb_{inv}'], ['ret', 'r']]],
                ['A', 'L', 'hL', [['sleep', 'd'], ['ret', 'l']]]]
    main = [['root', 'A', 'R', 'R0'], ['root', 'A', 'L', 'L1'], ['sleep', '2'], ['obs_all', 'end']]
    # (the refused recursion level itself stays pending: that is F2, reported by C03/C15; this scenario is about the *other* events)
    return dict(buses=['A'], reals={'d': ['0', '1/5']}, ints={'r': [0, rmax]}, handlers=handlers, main=main, horizon=7, c14_not_about=['R'])


def loop_died_with_backlog():
    """a burst is dispatched onto a fresh bus; the handler of the first event lets a CancelledError escape, which ends the run loop
    task before it ever idled; the rest of the burst was accepted and waits in the queue; a later dispatch restarts the bus: every
    accepted event is processed."""
    handlers = [['A', 'L', 'hPoison', [['raise', 'CancelledError']]], ['A', 'P', 'hP', [['sleep', 'd1'], ['ret', 'p']]]]
    main = [['root', 'A', 'L', 'L0'], ['root', 'A', 'P', 'P1'], ['root', 'A', 'P', 'P2'], ['sleep', 't1'], ['root', 'A', 'P', 'P3'], ['sleep', '2'], ['obs_all', 'end']]
    return dict(buses=['A'], reals={'d1': ['0', '1/5'], 't1': ['1/100', '1/2']}, handlers=handlers, main=main, horizon=7)


def relay_forward_while_third_busy(order=('A', 'B', 'C')):
    """A is a pure relay (its only handler forwards to B); C's handler holds the global lock when the event arrives; all three buses
    warm.  B's handler must wait until C's is done."""
    handlers = [['B', 'P', 'hB', [['sleep', 'd2'], ['ret', 'b']]], ['C', 'X', 'hC', [['sleep', 'd1'], ['ret', 'c']]],
                ['A', 'X', 'hXA', [['ret', 'x']]], ['B', 'X', 'hXB', [['ret', 'x']]]]
    main = [['root', 'A', 'X', 'XA0'], ['idle', 'A'], ['root', 'B', 'X', 'XB0'], ['idle', 'B'], ['root', 'C', 'X', 'XC0'], ['idle', 'C'],
            ['root', 'C', 'X', 'XC1'], ['root', 'C', 'X', 'XC2'], ['sleep', 't1'], ['root', 'A', 'P', 'P1'], ['sleep', '2'], ['idle', 'B'], ['idle', 'C'], ['obs_all', 'end']]
    return dict(buses=['A', 'B', 'C'], order=list(order), reals={'d1': ['0', '2/5'], 'd2': ['1/10', '1/10'], 't1': ['0', '3/10']}, handlers=handlers,
                typed_forwards_first=[['A', 'B', 'P']], main=main, horizon=8)


def long_handler_other_bus_waits():
    """a handler keeps the global lock for a long time (up to 15 s) while another, warm bus has an event queued all along."""
    cfg = two_bus_independent(('A', 'B'), 'main')
    cfg['reals'] = dict(cfg['reals'])
    cfg['reals']['d1'] = ['0', '15/2']       # (the handler sleeps d1 twice)
    cfg['horizon'] = 40
    cfg['default_timeout'] = 120.0
    return cfg


def three_same_names_read_bus():
    """three live buses that all asked for the same name; a handler on each reads event.event_bus (and dispatches a child through
    it): it must be the bus running that handler."""
    handlers = [[b, 'P', f'h{b}', [['read_bus'], ['disp', b, 'C', 'C_{inv}'], ['ret', b.lower()]]] for b in ('A', 'B', 'C')] + \
               [[b, 'C', f'hC{b}', [['ret', 'c']]] for b in ('A', 'B', 'C')]
    main = [['root', 'A', 'P', 'P1'], ['root', 'B', 'P', 'P2'], ['root', 'C', 'P', 'P3'], ['idle', 'A'], ['idle', 'B'], ['idle', 'C'], ['obs_all', 'end']]
    return dict(buses=['A', 'B', 'C'], order=['A', 'B', 'C'], bus_names={'A': 'Worker', 'B': 'Worker', 'C': 'Worker'}, reals={}, handlers=handlers, main=main, horizon=6)


def flood_retry_rejected():
    """a burst larger than the queue onto a bus with a small history limit; after the bus has drained, the rejected event objects are
    dispatched again: whatever was accepted (first time or on retry) is delivered exactly once."""
    handlers = [['A', 'C', 'hC', [['ret', 'c']]], ['A', 'C', 'hC2', [['ret', 'c2']], {'sync': True}]]
    main = [['burst_swallow', 'A', 'C', 'n', 'C'], ['idle', 'A'], ['redispatch_rejected'], ['idle', 'A'], ['obs_all', 'end']]
    return dict(buses=['A'], ints={'n': [50, 54]}, reals={}, handlers=handlers, main=main, max_history={'A': 10}, horizon=5, rejections_expected=True)



def expect_leaf_of_nested_chain():
    """a pending expect('*', include=<the leaf only>) sees every generation of a nested chain P -> C -> G built from inside handlers
    (its temporary handler takes part in all three levels and rejects the first two); the leaf is processed, its own handlers run,
    and expect() returns it."""
    handlers = [['A', 'P', 'hP', [['dispawait', 'A', 'C', 'C1'], ['ret', 'p']]], ['A', 'C', 'hC', [['sleep', 'd1'], ['dispawait', 'A', 'G', 'G1'], ['ret', 'c']]],
                ['A', 'G', 'hG', [['sleep', 'd2'], ['ret', 'g']]]]
    main = [['sleep', '1/100'], ['root', 'A', 'P', 'P1'], ['await', 'P1'], ['idle', 'A'], ['sleep', '1/2'], ['obs_all', 'end']]
    return dict(buses=['A'], reals={'d1': ['0', '1/5'], 'd2': ['0', '1/5']}, handlers=handlers, main=main,
                actors={'e': [['expect', 'A', '*', '2', 'G1']]}, horizon=6)



def handler_sends_own_event_to_wal_bus():
    """a handler of A hands the very event it is handling to a second (warm) bus B that keeps a WAL, then awaits a child: B's
    queue is drained inline, so B processes the event while that handler of A is still running (the event is in flight on two
    buses at once).  B ran its handlers for it, so B's log has its line."""
    handlers = [['A', 'P', 'hA', [['redispatch', 'B', 'P1'], ['dispawait', 'A', 'C', 'C1'], ['sleep', 'd1'], ['ret', 'a']]], ['A', 'C', 'hC', [['ret', 'c']]],
                ['B', 'P', 'hB', [['ret', 'b']]], ['B', 'X', 'hXB', [['ret', 'x']]]]
    main = [['root', 'B', 'X', 'X0'], ['idle', 'B'], ['root', 'A', 'P', 'P1'], ['await', 'P1'], ['idle', 'A'], ['idle', 'B'], ['obs_all', 'end']]
    return dict(buses=['A', 'B'], order=['B', 'A'], wal=['B'], reals={'d1': ['0', '1/5']}, handlers=handlers, main=main, horizon=6)   # (registry order B, A: the drain looks at B's queue first)



def same_handler_three_levels_with_forward(order=('A', 'B')):
    """A forwards everything to B (the forward is registered first); ONE wildcard handler object on A serves three nested levels:
    for P it awaits a child C, for C it awaits a grandchild G, for G it works for d2.  An unrelated event arrives meanwhile.
    (Three levels of the same handler are legal: the recursion guard only warns.)"""
    sw = {'P': [['dispawait', 'A', 'C', 'C1'], ['ret', 'p']], 'C': [['dispawait', 'A', 'G', 'G1'], ['ret', 'c']], 'G': [['sleep', 'd2'], ['ret', 'g']],
          'X': [['ret', 'x']]}
    handlers = [['B', 'P', 'hBP', [['ret', 'b']]], ['B', 'C', 'hBC', [['ret', 'b']]], ['B', 'G', 'hBG', [['ret', 'b']]], ['B', 'X', 'hBX', [['ret', 'b']]]]
    late = [['A', '*', 'hW', [['switch', sw]]]]
    main = [['root', 'B', 'X', 'X0'], ['idle', 'B'], ['root', 'A', 'P', 'P1'], ['await', 'P1'], ['idle', 'A'], ['idle', 'B'], ['obs_all', 'end']]
    return dict(buses=['A', 'B'], order=list(order), reals={'d2': D, 't_x': TI}, handlers=handlers, late_handlers=late, forwards=[['A', 'B']], main=main,
                actors={'x': [['sleep', 't_x'], ['root', 'A', 'X', 'X1']]}, horizon=6)



def forwarded_event_between_handlers_small_history():
    """A forwards to B (history limit 3, two serial handlers for P); B's history is full of completed fillers that are younger than
    the forwarded event; while B is between its first and its second handler for that event (same instant, a solver-chosen number of
    loop iterations later) another task dispatches one more event onto B: the event B is still processing must not be the one that
    is evicted."""
    handlers = [['A', 'P', 'hA', [['ret', 'a']]], ['B', 'P', 'hB1', [['sleep', 'd1'], ['ret', 'b1']]], ['B', 'P', 'hB2', [['sleep', 'd2'], ['ret', 'b2']]],
                ['B', 'X', 'hXB', [['ret', 'x']]]]
    main = [['mkevent', 'P', 'P1'], ['root', 'B', 'X', 'F1'], ['root', 'B', 'X', 'F2'], ['idle', 'B'], ['redispatch', 'A', 'P1'], ['await', 'P1'], ['sleep', '1'], ['idle', 'B'], ['obs_all', 'end']]
    return dict(buses=['A', 'B'], order=['A', 'B'], max_history={'B': 3}, observe_history=True, reals={'d1': ['1/100', '1/5'], 'd2': ['0', '1/10']}, ints={'k': [0, 8]},
                handlers=handlers, forwards=[['A', 'B']], main=main,
                actors={'f': [['sleep', 'd1'], ['sleep_steps', 'k'], ['root', 'B', 'X', 'F3'], ['root', 'B', 'X', 'F4']]}, horizon=6)



def cross_dispatch_after(kind='idle_gap'):
    """both buses are started from main and have processed events.  Then either nothing happens for 1.5 s (idle_gap) or B's handler
    re-dispatches its own event type until the recursion guard refuses a level (recursion; finding F2 for that level).  Afterwards a
    handler of A dispatches an event to B without awaiting it and goes on working; B's handler for it awaits an event it dispatches to
    A.  A is a serial bus: the event queued behind A's running handler must not start before that handler is done."""
    handlers = [['A', 'P', 'hP', [['sleep', 'd1'], ['disp', 'B', 'X', 'X1'], ['sleep', 'd2'], ['ret', 'p']]], ['A', 'L', 'hL', [['ret', 'l']]],
                ['A', 'C', 'hC', [['ret', 'c']]], ['A', 'X', 'hXA', [['ret', 'x']]], ['B', 'X', 'hXB', [['only', 'X'], ['dispawait', 'A', 'C', 'C_{inv}'], ['ret', 'x']]]]
    main = [['root', 'A', 'X', 'XA0'], ['idle', 'A'], ['root', 'B', 'X', 'XB0'], ['idle', 'B']]
    cfg_extra = {}
    if kind == 'idle_gap':
        main += [['sleep', '3/2']]
    else:
        handlers.append(['B', 'R', 'hRB', [['recur', 'B', 'r', 'ff'], ['ret', 'r']]])
        main += [['root', 'B', 'R', 'R0'], ['sleep', '1/2']]
        cfg_extra = dict(ints={'r': [3, 4]}, c14_not_about=['R'])
    main += [['root', 'A', 'P', 'P1'], ['root', 'A', 'L', 'L1'], ['sleep', '2'], ['obs_all', 'end']]
    return dict(buses=['A', 'B'], order=['A', 'B'], reals={'d1': ['0', '1/5'], 'd2': ['1/100', '3/10']}, handlers=handlers, main=main, horizon=9, **cfg_extra)





def idle_at_handler_end(two_handlers=True):
    """wait_until_idle() is called at the very instant the in-flight handler ends (main sleeps exactly as long as the handler), another
    event is queued behind, and one timer of the run is noticed up to 4 loop iterations late: when the call returns nothing accepted
    before it is unfinished."""
    handlers = [['A', 'P', 'hP', [['sleep', 'd1'], ['ret', 'p']]], ['A', 'L', 'hL', [['sleep', 'd2'], ['ret', 'l']]], ['A', 'X', 'hX', [['ret', 'x']]]]
    if two_handlers:
        handlers.append(['A', 'P', 'hP2', [['ret', 'p2']]])
    main = [['root', 'A', 'X', 'X0'], ['idle', 'A'], ['root', 'A', 'P', 'P1'], ['root', 'A', 'L', 'L1'], ['sleep', 'd1'], ['sleep_steps', 'k'], ['idle', 'A'], ['obs_all', 'end']]
    return dict(buses=['A'], reals={'d1': ['1/100', '3/10'], 'd2': ['0', '1/10']}, ints={'k': [0, 3], 'li': [0, 14], 'lk': [0, 3]}, late_timer=['li', 'lk'],
                handlers=handlers, main=main, horizon=6)
