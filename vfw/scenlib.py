"""Scenario catalogue (configuration dictionaries for scen.run)."""
from __future__ import annotations

import itertools

D = ['0', '3/10']      # default duration range
TI = ['0', '1/2']      # default instant range


def t_tree(ctx):
    from . import clauses, scen
    finished = scen.run(ctx)
    clauses.evaluate(ctx, finished)


def child(mode='await', k=0, depth=2, raising=None, actor=True, sync_child=False, two_handlers=False, extra_reals=None):
    """one bus; P's handler dispatches C (mode), optional G below C; k unrelated L events queued behind P;
    an external actor dispatches X at t_x."""
    reals = {'d1': D, 'd2': D}
    hp = [['sleep', 'd1']]
    if mode == 'ff':
        hp += [['disp', 'A', 'C', 'C1']]
    elif mode == 'await':
        hp += [['dispawait', 'A', 'C', 'C1']]
    elif mode == 'yield_await':
        reals['d4'] = D
        hp += [['disp', 'A', 'C', 'C1'], ['sleep', 'd4'], ['await', 'C1']]
    hp += [['ret', 'p']]
    hc = []
    if depth >= 3:
        hc += [['dispawait', 'A', 'G', 'G1']]
    if sync_child:
        hc = [['ret', 'c']]
    else:
        hc += [['sleep', 'd2']]
        if raising == 'child':
            hc += [['raise', 'ValueError']]
        else:
            hc += [['ret', 'c']]
    handlers = [['A', 'P', 'hP', hp], ['A', 'C', 'hC', hc, {'sync': sync_child}], ['A', 'L', 'hL', [['ret', 'l']]],
                ['A', 'X', 'hX', [['ret', 'x']]]]
    if depth >= 3:
        reals['d3'] = D
        handlers.append(['A', 'G', 'hG', [['sleep', 'd3'], ['ret', 'g']]])
    if two_handlers:
        handlers.append(['A', 'P', 'hP_b', [['ret', 'pb']], {'sync': True}])
        handlers.append(['A', '*', 'hAny', [['ret', 'any']]])
        handlers.append(['A', 'C', 'hC_byname', [['ret', 'cn']], {'by_name': True}])
    if raising == 'parent_sibling':
        handlers.append(['A', 'P', 'hBoom', [['raise', 'ValueError']], {'sync': True}])
    main = [['root', 'A', 'P', 'P1']] + [['root', 'A', 'L', f'L{i}'] for i in range(k)] + [['await', 'P1'], ['idle', 'A'], ['obs_all', 'end']]
    cfg = dict(buses=['A'], reals=reals, handlers=handlers, main=main, horizon=5)
    if actor:
        reals['t_x'] = TI
        cfg['actors'] = {'x': [['sleep', 't_x'], ['root', 'A', 'X', 'X1']]}
    if extra_reals:
        reals.update(extra_reals)
    return cfg


def roots3():
    """one bus, three roots at ordered symbolic instants, handler durations symbolic."""
    reals = {'d1': D, 'd2': D, 't2': TI, 't3': TI}
    handlers = [['A', 'P', 'hP', [['sleep', 'd1'], ['ret', 'p']]], ['A', 'L', 'hL', [['sleep', 'd2'], ['ret', 'l']]],
                ['A', 'X', 'hX', [['ret', 'x']]]]
    main = [['root', 'A', 'P', 'P1'], ['sleep', 't2'], ['root', 'A', 'L', 'L1'], ['sleep', 't3'], ['root', 'A', 'X', 'X1'],
            ['idle', 'A'], ['obs_all', 'end']]
    return dict(buses=['A'], reals=reals, handlers=handlers, main=main, horizon=5)


def recur(mode='await', rmax=4):
    handlers = [['A', 'R', 'hR', [['sleep', 'd'], ['recur', 'A', 'r', mode], ['ret', 'r']]]]
    main = [['root', 'A', 'R', 'R0'], ['await', 'R0'], ['idle', 'A'], ['obs_all', 'end']]
    return dict(buses=['A'], reals={'d': ['0', '1/5']}, ints={'r': [0, rmax]}, handlers=handlers, main=main, horizon=6)


def redispatch():
    """the same event object dispatched to the same bus again: in flight (actor at t_r) and after completion."""
    handlers = [['A', 'P', 'hP', [['sleep', 'd1'], ['ret', 'p']]], ['A', 'P', 'hP2', [['ret', 'p2']], {'sync': True}]]
    main = [['root', 'A', 'P', 'P1'], ['await', 'P1'], ['obs', 'after_await', 'P1'], ['redispatch', 'A', 'P1'], ['idle', 'A'],
            ['obs_all', 'end']]
    return dict(buses=['A'], reals={'d1': D, 't_r': TI}, handlers=handlers, main=main,
                actors={'r': [['sleep', 't_r'], ['redispatch', 'A', 'P1']]}, horizon=5)


def late_grandchild():
    """non-forwarded tree with a late fire-and-forget grandchild; a poller observes the root at t_p."""
    handlers = [['A', 'P', 'hP', [['disp', 'A', 'C', 'C1'], ['ret', 'p']]],
                ['A', 'C', 'hC', [['disp', 'A', 'G', 'G1'], ['sleep', 'd1'], ['ret', 'c']]],
                ['A', 'G', 'hG', [['sleep', 'd2'], ['ret', 'g']]]]
    main = [['root', 'A', 'P', 'P1'], ['await', 'P1'], ['obs', 'after_await', 'P1'], ['idle', 'A'], ['obs_all', 'end']]
    return dict(buses=['A'], reals={'d1': D, 'd2': D, 't_p': ['0', '1']}, handlers=handlers, main=main,
                actors={'poll': [['poll', 't_p', 'P1'], ['poll', 'd2', 'P1']]}, horizon=5)


def errors(kind='ValueError', where='parent', sync=False, after_sleep=True, ret_exc=False):
    """a raising handler (or one returning an exception object) placed as parent / awaited child / ff child; other events in flight."""
    boom = ([['sleep', 'd1']] if (after_sleep and not sync) else []) + ([['ret_exc', kind]] if ret_exc else [['raise', kind]])
    ok = [['ret', 'ok']]
    handlers = [['A', 'L', 'hL', [['ret', 'l']]], ['A', 'X', 'hX', [['ret', 'x']]]]
    if where == 'parent':
        handlers += [['A', 'P', 'hBoom', boom, {'sync': sync}], ['A', 'P', 'hOk', ok], ['A', 'P', 'hOk2', [['sleep', 'd2'], ['ret', 'ok2']]]]
    elif where == 'awaited_child':
        handlers += [['A', 'P', 'hP', [['dispawait', 'A', 'C', 'C1'], ['sleep', 'd2'], ['ret', 'p']]],
                     ['A', 'C', 'hBoom', boom, {'sync': sync}], ['A', 'C', 'hOk', ok]]
    else:
        handlers += [['A', 'P', 'hP', [['disp', 'A', 'C', 'C1'], ['sleep', 'd2'], ['ret', 'p']]],
                     ['A', 'C', 'hBoom', boom, {'sync': sync}], ['A', 'C', 'hOk', ok]]
    target = 'P1' if where == 'parent' else 'C1'
    main = [['root', 'A', 'P', 'P1'], ['root', 'A', 'L', 'L1'], ['await', 'P1'], ['idle', 'A'],
            ['accessor', target, {'raise_if_any': True, 'raise_if_none': False}],
            ['accessor', target, {'raise_if_any': False, 'raise_if_none': False}], ['obs_all', 'end']]
    return dict(buses=['A'], reals={'d1': D, 'd2': D, 't_x': TI}, handlers=handlers, main=main,
                actors={'x': [['sleep', 't_x'], ['root', 'A', 'X', 'X1']]}, horizon=5)


def two_bus_await(target='other_running', order=('A', 'B'), yield_first=True, depth=2, parallel=()):
    """handler on A dispatches C to Y and awaits it. Y in {same, other_running (B already used from main), other_fresh}."""
    y = 'A' if target == 'same' else 'B'
    hp = [['sleep', 'd1'], ['disp', y, 'C', 'C1']] + ([['sleep', 'd3']] if yield_first else []) + [['await', 'C1'], ['ret', 'p']]
    hc = ([['dispawait', 'A', 'G', 'G1']] if depth >= 3 else []) + [['sleep', 'd2'], ['ret', 'c']]
    handlers = [['A', 'P', 'hP', hp], [y, 'C', 'hC', hc], ['B', 'X', 'hX', [['ret', 'x']]], ['A', 'G', 'hG', [['ret', 'g']]]]
    main = []
    if target == 'other_running':
        main += [['root', 'B', 'X', 'X0'], ['idle', 'B']]
    main += [['root', 'A', 'P', 'P1'], ['await', 'P1'], ['idle', 'A'], ['idle', 'B'], ['obs_all', 'end']]
    reals = {'d1': D, 'd2': D}
    if yield_first:
        reals['d3'] = D
    return dict(buses=['A', 'B'], order=list(order), parallel=list(parallel), reals=reals, handlers=handlers, main=main, horizon=6)


def two_bus_independent(order=('A', 'B'), first_use='main'):
    """two buses each with a slow handler; roots dispatched to different buses at t1,t2; B first used from main or from inside a handler of A."""
    handlers = [['A', 'P', 'hP', [['sleep', 'd1']] + ([['disp', 'B', 'C', 'C1']] if first_use == 'handler' else []) + [['sleep', 'd1'], ['ret', 'p']]],
                ['B', 'C', 'hC', [['sleep', 'd2'], ['ret', 'c']]], ['B', 'X', 'hX', [['sleep', 'd2'], ['ret', 'x']]],
                ['A', 'L', 'hL', [['sleep', 'd2'], ['ret', 'l']]]]
    main = [['root', 'A', 'P', 'P1']]
    if first_use == 'main':
        main += [['root', 'B', 'C', 'C1']]
    main += [['sleep', 't1'], ['root', 'A', 'L', 'L1'], ['root', 'B', 'X', 'X1'], ['idle', 'A'], ['idle', 'B'], ['obs_all', 'end']]
    return dict(buses=['A', 'B'], order=list(order), reals={'d1': D, 'd2': D, 't1': TI}, handlers=handlers, main=main, horizon=6)


def drain(order=('A', 'B')):
    """p12 family: bus B has X1, X2 queued while a handler of A holds the lock and then awaits a child (inline drain)."""
    handlers = [['A', 'P', 'hP', [['sleep', 'd1'], ['dispawait', 'A', 'C', 'C1'], ['ret', 'p']]], ['A', 'C', 'hC', [['ret', 'c']]],
                ['B', 'X', 'hX', [['sleep', 'd2'], ['ret', 'x']]]]
    main = [['root', 'A', 'P', 'P1'], ['sleep', 't1'], ['root', 'B', 'X', 'X1'], ['root', 'B', 'X', 'X2'], ['idle', 'A'], ['idle', 'B'], ['obs_all', 'end']]
    return dict(buses=['A', 'B'], order=list(order), reals={'d1': D, 'd2': ['0', '1/10'], 't1': TI}, handlers=handlers, main=main, horizon=6)


def forward_chain(n=3, order=None, topo='chain', second_event=False, slow=True, late=False, poll=False):
    """forwarding over n buses: chain A->B->C, cycle (+C->A), diamond A->B, A->C, B->D, C->D."""
    names = ['A', 'B', 'C', 'D'][:n]
    if topo == 'chain':
        fw = [[names[i], names[i + 1]] for i in range(n - 1)]
    elif topo == 'cycle':
        fw = [[names[i], names[(i + 1) % n]] for i in range(n)]
    elif topo == 'diamond':
        names = ['A', 'B', 'C', 'D']
        fw = [['A', 'B'], ['A', 'C'], ['B', 'D'], ['C', 'D']]
    elif topo == 'fanin':
        names = ['A', 'B', 'C']
        fw = [['A', 'C'], ['B', 'C']]
    else:
        raise ValueError(topo)
    reals = {}
    handlers = []
    for i, b in enumerate(names):
        v = f'd{i + 1}' if (slow and i < 3) else None
        if v:
            reals[v] = D
        handlers.append([b, 'P', f'h{b}', ([['sleep', v]] if v else []) + [['read_bus'], ['ret', b.lower()]]])
        handlers.append([b, 'L', f'hL{b}', [['ret', 'l' + b.lower()]]])
    main = [['root', 'A', 'P', 'P1']]
    if second_event:
        main += [['root', names[1] if topo != 'fanin' else 'B', 'L', 'L1']]
    if topo == 'fanin':
        main += [['root', 'B', 'P', 'P2']]
    main += [['await', 'P1'], ['obs', 'after_await', 'P1']] + [['idle', b] for b in names] + [['obs_all', 'end']]
    cfg = dict(buses=names, order=list(order or names), reals=reals, handlers=handlers, forwards=fw, main=main, horizon=8)
    if late:
        cfg['late_handlers'] = [['A', '*', 'hLate', [['read_bus'], ['ret', 'late']]]]
    if poll:
        reals['t_p'] = ['0', '1']
        cfg['actors'] = {'poll': [['poll', 't_p', 'P1']]}
    return cfg


def parallel_handlers(order=('A', 'B')):
    """parallel_handlers bus A: two handlers of one event each dispatch (and await) their own child; serial bus B in flight too."""
    handlers = [['A', 'P', 'h1', [['sleep', 'd1'], ['dispawait', 'A', 'C', 'C_{inv}'], ['read_bus'], ['ret', 1]]],
                ['A', 'P', 'h2', [['sleep', 'd2'], ['dispawait', 'B', 'G', 'G_{inv}'], ['read_bus'], ['ret', 2]]],
                ['A', 'C', 'hC', [['sleep', 'd3'], ['ret', 'c']]], ['B', 'G', 'hG', [['sleep', 'd3'], ['ret', 'g']]],
                ['B', 'X', 'hX', [['ret', 'x']]]]
    main = [['root', 'A', 'P', 'P1'], ['root', 'B', 'X', 'X1'], ['await', 'P1'], ['idle', 'A'], ['idle', 'B'],
            ['root', 'A', 'C', 'Cmain'], ['idle', 'A'], ['obs_all', 'end']]
    return dict(buses=['A', 'B'], order=list(order), parallel=['A'], reals={'d1': D, 'd2': D, 'd3': ['0', '1/5']}, handlers=handlers, main=main, horizon=6)


def samefn(order=('A', 'B')):
    """the same handler name on two buses with forwarding A->B, child dispatched to the other bus."""
    handlers = [['A', 'P', 'hP', [['sleep', 'd1'], ['disp', 'B', 'C', 'C_{inv}'], ['ret', 'p']]],
                ['B', 'P', 'hP', [['sleep', 'd1'], ['ret', 'p']]],
                ['B', 'C', 'hC', [['ret', 'c']]], ['A', 'C', 'hC', [['ret', 'c']]]]
    main = [['root', 'A', 'P', 'P1'], ['await', 'P1'], ['idle', 'A'], ['idle', 'B'], ['obs_all', 'end']]
    return dict(buses=['A', 'B'], order=list(order), reals={'d1': D}, handlers=handlers, forwards=[['A', 'B']], main=main, horizon=6)


def perms(names):
    return [list(p) for p in itertools.permutations(names)]
