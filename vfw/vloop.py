"""VLoop — a virtual-time asyncio event loop (mirrors BaseEventLoop._run_once scheduling).

Tasks/futures are the stock asyncio ones.  Time is an `Exact` rational or a symbolic real;
the only operations performed on it are +, comparisons, and storing it in TimerHandles.
Timers are kept sorted by (when, insertion); comparing two symbolic deadlines is a branch the
path driver explores both ways.
"""
from __future__ import annotations

import asyncio
import collections
from asyncio import events, futures, tasks

from .base import Exact, Horizon, HarnessError


class VLoop(asyncio.AbstractEventLoop):
    def __init__(self, horizon=None, max_steps=400000, step_hook=None):
        self._now = Exact(0)
        self._ready = collections.deque()
        self._timers: list = []
        self._running = False
        self._closed = False
        self._debug = False
        self.exc_contexts: list = []
        self.n_steps = 0
        self.n_jumps = 0
        self._steps_at_jump = 0
        self.max_steps_per_instant = 60000
        self.max_steps = max_steps
        self.horizon = horizon
        self.step_hook = step_hook
        self._all_tasks: list = []
        self.executor_delay = None      # None: result on the next iteration; else a (possibly symbolic) duration per call
        # timer lateness: the `late_timer[0]`-th timer created (0-based) fires `late_timer[1]` loop iterations after it fell due
        # (a real loop only looks at its timers between iterations, and iterations take time)
        self.late_timer = None
        self._n_timers = 0
        self._late_h, self._late_n = None, 0

    # ---- clock
    def time(self):
        return self._now

    # ---- scheduling
    def call_soon(self, callback, *args, context=None):
        h = events.Handle(callback, args, self, context)
        self._ready.append(h)
        return h

    call_soon_threadsafe = call_soon

    def call_later(self, delay, callback, *args, context=None):
        if isinstance(delay, float):
            delay = Exact(delay)
        return self.call_at(self._now + delay, callback, *args, context=context)

    def call_at(self, when, callback, *args, context=None):
        if isinstance(when, (float, int)) and not isinstance(when, bool):
            when = Exact(when)
        h = events.TimerHandle(when, callback, args, self, context)
        if self.late_timer is not None and self._n_timers == self.late_timer[0]:
            self._late_h, self._late_n = h, int(self.late_timer[1])
        self._n_timers += 1
        i = len(self._timers)
        # after every timer with when' <= when (ties: insertion order)
        while i > 0:
            other = self._timers[i - 1]
            if other._cancelled:
                i -= 1
                continue
            if when < other._when:
                i -= 1
            else:
                break
        self._timers.insert(i, h)
        h._scheduled = True
        return h

    def _timer_handle_cancelled(self, handle):
        try:
            self._timers.remove(handle)
        except ValueError:
            pass

    def create_future(self):
        return futures.Future(loop=self)

    def create_task(self, coro, *, name=None, context=None):
        if context is None:
            t = tasks.Task(coro, loop=self, name=name)
        else:
            t = tasks.Task(coro, loop=self, name=name, context=context)
        t._log_destroy_pending = False
        self._all_tasks.append(t)
        return t

    def get_debug(self): return self._debug
    def set_debug(self, v): self._debug = v
    def is_running(self): return self._running
    def is_closed(self): return self._closed
    def close(self): self._closed = True
    def stop(self): pass
    def get_task_factory(self): return None
    def get_exception_handler(self): return None

    def call_exception_handler(self, context):
        self.exc_contexts.append(context)

    default_exception_handler = call_exception_handler

    async def shutdown_asyncgens(self): pass
    async def shutdown_default_executor(self, timeout=None): pass

    def run_in_executor(self, executor, func, *args):
        # threads are outside the environment model; the one thing modelled is that the caller is suspended for (at least) one
        # loop iteration: the function runs here and now, its result is delivered on the next iteration, or after
        # `executor_delay` (an arbitrary non-negative duration chosen by the template, usually symbolic: work in a thread takes time)
        fut = self.create_future()

        def _deliver(ok, val):
            if fut.cancelled():
                return
            (fut.set_result if ok else fut.set_exception)(val)
        def _sched(ok, val):
            if self.executor_delay is None:
                self.call_soon(_deliver, ok, val)
            else:
                self.call_later(self.executor_delay, _deliver, ok, val)
        try:
            res = func(*args)
        except BaseException as ex:  # noqa
            _sched(False, ex)
        else:
            _sched(True, res)
        return fut

    # ---- one iteration
    def _run_once(self):
        timers = self._timers
        if not self._ready:
            while timers and timers[0]._cancelled:
                timers.pop(0)
            if not timers:
                raise Horizon('no runnable task and no timer')
            when = timers[0]._when
            if self.horizon is not None and when > self.horizon:
                self._now = self.horizon
                raise Horizon('virtual horizon reached')
            self._now = when
            self.n_jumps += 1
            self._steps_at_jump = self.n_steps
        now = self._now
        due = []
        while timers:
            h = timers[0]
            if h._cancelled:
                timers.pop(0)
                continue
            if h._when <= now:
                timers.pop(0)
                due.append(h)
            else:
                break
        held = []
        for h in due:
            if h is self._late_h and self._late_n > 0 and (self._ready or len(due) > 1):
                # this one is noticed a few iterations late (only while other callbacks keep the loop busy)
                self._late_n -= 1
                held.append(h)
                continue
            h._scheduled = False
            self._ready.append(h)
        if held:
            timers[0:0] = held
        for _ in range(len(self._ready)):
            h = self._ready.popleft()
            if h._cancelled:
                continue
            self.n_steps += 1
            if self.n_steps > self.max_steps:
                raise Horizon('step budget exceeded')
            if self.n_steps - self._steps_at_jump > self.max_steps_per_instant:
                # something reschedules itself for ever without any time passing (zero-CPU-time model: the clock can never advance)
                raise Horizon('livelock: more than %d callbacks at one virtual instant' % self.max_steps_per_instant)
            if self.step_hook is not None:
                self.step_hook(self)
            h._run()

    def run_until_complete(self, fut):
        fut = tasks.ensure_future(fut, loop=self)
        self._running = True
        old = events._get_running_loop()
        events._set_running_loop(self)
        try:
            while not fut.done():
                self._run_once()
        finally:
            self._running = False
            events._set_running_loop(old)
        return fut.result()

    def run_steps(self, n):
        """Run up to n more iterations (used after a horizon stop to let cancellations settle)."""
        self._running = True
        old = events._get_running_loop()
        events._set_running_loop(self)
        try:
            for _ in range(n):
                if not self._ready:
                    break
                self._run_once()
        finally:
            self._running = False
            events._set_running_loop(old)

    def run_forever(self):
        raise NotImplementedError

    def abandon(self):
        """Drop everything still scheduled; tasks are left to the garbage collector silently."""
        for t in self._all_tasks:
            t._log_destroy_pending = False
        self._ready.clear()
        self._timers.clear()
        self._all_tasks.clear()
