"""zsym — z3-backed proxy values and a replay-based depth-first path driver.

Dynamic symbolic execution of ordinary Python: every branch on a proxy asks the solver which
sides are feasible under the current path condition; the driver re-executes the program until
every feasible side of every branch has been taken.  Each completed path is a *region* of the
declared input domain characterised by its path condition (PC).
"""
from __future__ import annotations

import fractions
import random
import time

import z3

from .base import (ConcretisationBoundary, Exact, HarnessError, NonDeterministicHarness, PathAbort,
                   SolverUnknown, SymBase)

DRIVER: 'Driver | None' = None


def _drv() -> 'Driver':
    if DRIVER is None:
        raise HarnessError('symbolic value used outside an exploration')
    return DRIVER


class Node:
    __slots__ = ('kind', 'expr', 'taken', 'alt', 'tried', 'next_val', 'recheck')

    def __init__(self, kind, expr, taken, alt, tried=None, next_val=None):
        self.kind = kind
        self.expr = expr
        self.taken = taken
        self.alt = alt
        self.tried = tried or []
        self.next_val = next_val
        self.recheck = False

    def conjunct(self):
        if self.kind == 'bool':
            return self.expr if self.taken else z3.Not(self.expr)
        return self.expr == self.taken


class Driver:
    def __init__(self, seed: int = 0, solver_timeout_ms: int = 60000, max_paths: int | None = None):
        self.solver = z3.Solver()
        self.solver.set('timeout', solver_timeout_ms)
        self.domain: list = []
        self.domain_keys: set = set()
        self.vars: dict = {}  # name -> (z3 var, kind, lo, hi)
        self.nodes: list[Node] = []
        self.depth = 0
        self.rng = random.Random(seed)
        self.seed = seed
        self.max_paths = max_paths
        self.n_paths = 0
        self.n_branch_queries = 0
        self.n_other_queries = 0
        self.solver_s = 0.0
        self._model = None
        self._cache: dict = {}
        self._active = False
        self.exhausted = False

    # ----- declarations
    def declare(self, name, kind, lo=None, hi=None):
        if name in self.vars:
            return self.vars[name][0]
        if kind == 'real':
            v = z3.Real(name)
        elif kind == 'int':
            v = z3.Int(name)
        elif kind == 'bool':
            v = z3.Bool(name)
        else:
            raise HarnessError(kind)
        self.vars[name] = (v, kind, lo, hi)
        if lo is not None:
            self.add_domain(v >= _zval(lo, kind))
        if hi is not None:
            self.add_domain(v <= _zval(hi, kind))
        return v

    def add_domain(self, c):
        k = c.sexpr()
        if k in self.domain_keys:
            return
        if self.depth:
            # declarations after a decision are allowed (they constrain fresh variables only)
            pass
        self.domain_keys.add(k)
        self.domain.append(c)
        if self._active:
            self.solver.add(c)
            self._model = None

    # ----- path life cycle
    def start_path(self):
        self.solver.push()
        self._active = True
        self.depth = 0
        self._model = None
        self._cache = {}
        for c in self.domain:
            self.solver.add(c)

    def end_path(self):
        self.solver.pop()
        self._active = False
        self.n_paths += 1

    def pc(self):
        return [n.conjunct() for n in self.nodes[: self.depth]]

    def pc_expr(self):
        p = self.pc()
        return z3.And(p) if p else z3.BoolVal(True)

    # ----- solver access
    def _check(self, *extra, branch=False):
        t = time.perf_counter()
        self.solver.push()
        for a in extra:
            self.solver.add(a)
        r = self.solver.check()
        m = self.solver.model() if r == z3.sat else None
        self.solver.pop()
        self.solver_s += time.perf_counter() - t
        if branch:
            self.n_branch_queries += 1
        else:
            self.n_other_queries += 1
        if r == z3.unknown:
            raise SolverUnknown(f'solver returned unknown: {self.solver.reason_unknown()}')
        return r == z3.sat, m

    def model(self):
        if self._model is None:
            ok, m = self._check(branch=True)
            if not ok:
                raise HarnessError('path condition unsatisfiable (engine bug)')
            self._model = m
        return self._model

    def check_sat(self, *extra):
        """Is PC ∧ extra satisfiable?  Returns (sat?, model)."""
        return self._check(*extra)

    # ----- decisions
    def decide(self, e) -> bool:
        e = z3.simplify(e)
        if z3.is_true(e):
            return True
        if z3.is_false(e):
            return False
        k = e.get_id()
        if k in self._cache:
            return self._cache[k]
        i = self.depth
        if i < len(self.nodes):
            node = self.nodes[i]
            if node.kind != 'bool' or not node.expr.eq(e):
                raise NonDeterministicHarness(
                    f'replay diverged at decision {i}: recorded {node.expr.sexpr()[:200]} now {e.sexpr()[:200]}')
            if node.recheck:
                node.recheck = False
            taken = node.taken
        else:
            m = self.model()
            mv = m.eval(e, model_completion=True)
            taken = z3.is_true(mv)
            other = z3.Not(e) if taken else e
            alt, om = self._check(other, branch=True)
            if alt and self.rng.random() < 0.5 and self.seed != 0:
                # seed-dependent branch order: take the other side first
                taken = not taken
                self._model = om
                # the side just left is feasible (the cached model witnessed it)
            node = Node('bool', e, taken, alt)
            self.nodes.append(node)
        self.solver.add(e if taken else z3.Not(e))
        if self._model is not None:
            mv = self._model.eval(e, model_completion=True)
            if z3.is_true(mv) != taken:
                self._model = None
        self.depth += 1
        self._cache[k] = taken
        return taken

    def choose_int(self, e) -> int:
        """Fork over every feasible integer value of e."""
        e = z3.simplify(e)
        if z3.is_int_value(e):
            return e.as_long()
        i = self.depth
        if i < len(self.nodes):
            node = self.nodes[i]
            if node.kind != 'int' or not node.expr.eq(e):
                raise NonDeterministicHarness(f'replay diverged at int choice {i}')
            if node.recheck:
                node.recheck = False
                excl = [e != v for v in node.tried + [node.taken]]
                alt, om = self._check(*excl, branch=True)
                node.alt = alt
                node.next_val = om.eval(e, model_completion=True).as_long() if alt else None
            v = node.taken
        else:
            m = self.model()
            v = m.eval(e, model_completion=True).as_long()
            alt, om = self._check(e != v, branch=True)
            nv = om.eval(e, model_completion=True).as_long() if alt else None
            node = Node('int', e, v, alt, [], nv)
            self.nodes.append(node)
        self.solver.add(e == v)
        if self._model is not None:
            if self._model.eval(e, model_completion=True).as_long() != v:
                self._model = None
        self.depth += 1
        return v

    def next_prefix(self) -> bool:
        """Flip the deepest decision that still has an untried feasible alternative."""
        nodes = self.nodes[: self.depth] if self.depth <= len(self.nodes) else self.nodes
        self.nodes = nodes
        while self.nodes and not self.nodes[-1].alt:
            self.nodes.pop()
        if not self.nodes:
            self.exhausted = True
            return False
        n = self.nodes[-1]
        if n.kind == 'bool':
            n.taken = not n.taken
            n.alt = False
        else:
            n.tried.append(n.taken)
            n.taken = n.next_val
            n.alt = False
            n.recheck = True
        return True

    def frontier(self) -> int:
        return sum(1 for n in self.nodes if n.alt)


# --------------------------------------------------------------------------- values
def _zval(x, kind='real'):
    if isinstance(x, bool):
        return z3.BoolVal(x)
    if kind == 'int' and isinstance(x, int):
        return z3.IntVal(x)
    f = fractions.Fraction(repr(x)) if isinstance(x, float) else fractions.Fraction(x)
    return z3.RealVal(f'{f.numerator}/{f.denominator}')


def _lift_num(x):
    """python number -> z3 arithmetic term (or NotImplemented)."""
    if isinstance(x, SymReal):
        return x.e
    if isinstance(x, bool):
        return NotImplemented
    if isinstance(x, int):
        return z3.IntVal(x)
    if isinstance(x, float):
        f = fractions.Fraction(repr(x))
        return z3.RealVal(f'{f.numerator}/{f.denominator}')
    if isinstance(x, fractions.Fraction):
        return z3.RealVal(f'{x.numerator}/{x.denominator}')
    return NotImplemented


def _coerce(a, b):
    if z3.is_int(a) and z3.is_real(b):
        a = z3.ToReal(a)
    elif z3.is_real(a) and z3.is_int(b):
        b = z3.ToReal(b)
    return a, b


class SymBool(SymBase):
    __slots__ = ('e',)

    def __init__(self, e):
        self.e = e

    def __bool__(self):
        return _drv().decide(self.e)

    def _and(self, others):
        return SymBool(z3.And(self.e, *[o.e for o in others])) if others else self

    def _or(self, others):
        return SymBool(z3.Or(self.e, *[o.e for o in others])) if others else self

    def _not(self):
        return SymBool(z3.Not(self.e))

    def _ite(self, a, b):
        la, lb = _lift_any(a), _lift_any(b)
        if z3.is_bool(la):
            return SymBool(z3.If(self.e, la, lb))
        la, lb = _coerce(la, lb)
        r = z3.If(self.e, la, lb)
        return SymInt(r) if z3.is_int(r) else SymReal(r)

    def __eq__(self, o):
        if isinstance(o, SymBool):
            return SymBool(self.e == o.e)
        if isinstance(o, bool):
            return self if o else self._not()
        return NotImplemented

    def __ne__(self, o):
        r = self.__eq__(o)
        return r if r is NotImplemented else r._not()

    __hash__ = None

    def __repr__(self):
        return f'SymBool({z3.simplify(self.e)})'


def _lift_any(x):
    if isinstance(x, SymBool):
        return x.e
    if isinstance(x, bool):
        return z3.BoolVal(x)
    r = _lift_num(x)
    if r is NotImplemented:
        raise HarnessError(f'cannot lift {type(x).__name__} into the solver')
    return r


class SymReal(SymBase):
    __slots__ = ('e',)

    def __init__(self, e):
        self.e = e

    def _mk(self, r):
        return SymInt(r) if z3.is_int(r) else SymReal(r)

    def _bin(self, o, f, swap=False):
        l = _lift_num(o)
        if l is NotImplemented:
            return NotImplemented
        a, b = _coerce(self.e, l)
        return self._mk(f(b, a) if swap else f(a, b))

    def __add__(self, o): return self._bin(o, lambda a, b: a + b)
    def __radd__(self, o): return self._bin(o, lambda a, b: a + b, True)
    def __sub__(self, o): return self._bin(o, lambda a, b: a - b)
    def __rsub__(self, o): return self._bin(o, lambda a, b: a - b, True)

    def __mul__(self, o):
        if isinstance(o, SymReal) and not (z3.is_rational_value(z3.simplify(o.e)) or z3.is_int_value(z3.simplify(o.e))
                                           or z3.is_rational_value(z3.simplify(self.e)) or z3.is_int_value(z3.simplify(self.e))):
            raise ConcretisationBoundary('symbolic * symbolic (non-linear) is outside the encoding')
        return self._bin(o, lambda a, b: a * b)

    def __rmul__(self, o): return self._bin(o, lambda a, b: a * b, True)

    def __truediv__(self, o):
        if isinstance(o, SymReal):
            raise ConcretisationBoundary('division by a symbolic value is outside the encoding')
        l = _lift_num(o)
        if l is NotImplemented:
            return NotImplemented
        a = z3.ToReal(self.e) if z3.is_int(self.e) else self.e
        b = z3.ToReal(l) if z3.is_int(l) else l
        return SymReal(a / b)

    def __neg__(self): return self._mk(-self.e)
    def __pos__(self): return self

    def __abs__(self):
        return self._mk(z3.If(self.e >= 0, self.e, -self.e))

    def _cmp(self, o, f):
        l = _lift_num(o)
        if l is NotImplemented:
            return NotImplemented
        a, b = _coerce(self.e, l)
        return SymBool(f(a, b))

    def __lt__(self, o): return self._cmp(o, lambda a, b: a < b)
    def __le__(self, o): return self._cmp(o, lambda a, b: a <= b)
    def __gt__(self, o): return self._cmp(o, lambda a, b: a > b)
    def __ge__(self, o): return self._cmp(o, lambda a, b: a >= b)

    def __eq__(self, o):
        r = self._cmp(o, lambda a, b: a == b)
        return False if r is NotImplemented else r

    def __ne__(self, o):
        r = self._cmp(o, lambda a, b: a != b)
        return True if r is NotImplemented else r

    __hash__ = None

    def __bool__(self):
        return bool(self != 0)

    def __format__(self, spec): return '<sym>'
    def __str__(self): return '<sym>'
    def __repr__(self): return f'Sym({z3.simplify(self.e)})'

    def __float__(self):
        raise ConcretisationBoundary('symbolic real reached float()')

    def __int__(self):
        raise ConcretisationBoundary('symbolic real reached int()')

    def __round__(self, n=None):
        raise ConcretisationBoundary('symbolic real reached round()')

    def __reduce__(self):
        raise ConcretisationBoundary('symbolic value reached pickling')


class SymInt(SymReal):
    __slots__ = ()

    def __index__(self):
        return _drv().choose_int(self.e)

    __int__ = __index__

    def __floordiv__(self, o):
        if isinstance(o, int) and not isinstance(o, bool) and o > 0:
            return SymInt(self.e / z3.IntVal(o))
        raise ConcretisationBoundary('floordiv')

    def __mod__(self, o):
        if isinstance(o, int) and not isinstance(o, bool) and o > 0:
            return SymInt(self.e % z3.IntVal(o))
        raise ConcretisationBoundary('mod')


class SymEnum(SymBase):
    """Finite choice among concrete python values; equality against a value is a SymBool."""
    __slots__ = ('e', 'values')

    def __init__(self, e, values):
        self.e = e
        self.values = tuple(values)

    def is_(self, v):
        return SymBool(self.e == self.values.index(v))

    def __eq__(self, o):
        if isinstance(o, SymEnum):
            if o.values != self.values:
                raise HarnessError('comparing enums over different value sets')
            return SymBool(self.e == o.e)
        try:
            idx = self.values.index(o)
        except ValueError:
            return False
        return SymBool(self.e == idx)

    def __ne__(self, o):
        r = self.__eq__(o)
        return (not r) if isinstance(r, bool) else r._not()

    __hash__ = None

    def pick(self):
        """Fork: concretise to one of the values."""
        return self.values[_drv().choose_int(self.e)]

    def __repr__(self):
        return f'SymEnum({z3.simplify(self.e)} in {self.values})'

    def __str__(self):
        return '<symenum>'

    __format__ = lambda self, spec: '<symenum>'


# --------------------------------------------------------------------------- model helpers
def model_to_dict(drv: Driver, m) -> dict:
    out = {}
    for name, (v, kind, lo, hi) in drv.vars.items():
        val = m.eval(v, model_completion=True)
        if kind == 'real':
            out[name] = f'{val.numerator_as_long()}/{val.denominator_as_long()}'
        elif kind == 'int':
            out[name] = val.as_long()
        else:
            out[name] = bool(z3.is_true(val))
    return out


def parse_region(text: str, drv: Driver, cfg=None):
    """Known-finding region: a python expression over declared variable names (and numeric configuration
    entries) using And/Or/Not/Implies."""
    if text.strip() in ('true', 'True', ''):
        return z3.BoolVal(True)
    env = {}
    for k, v in (cfg or {}).items():
        if isinstance(v, bool):
            env[k] = z3.BoolVal(v)
        elif isinstance(v, int):
            env[k] = z3.IntVal(v)
        elif isinstance(v, (float, fractions.Fraction)):
            env[k] = _zval(v)
        elif isinstance(v, str):
            try:
                env[k] = _zval(fractions.Fraction(v))
            except (ValueError, ZeroDivisionError):
                pass
    env.update({name: v[0] for name, v in drv.vars.items()})
    env.update(And=z3.And, Or=z3.Or, Not=z3.Not, Implies=z3.Implies, Q=lambda a, b=1: z3.RealVal(f'{a}/{b}'))
    try:
        return eval(text, {'__builtins__': {}}, env)
    except NameError as ex:
        raise HarnessError(f'known-finding region {text!r} mentions an undeclared variable: {ex}')


# --------------------------------------------------------------------------- self test
def self_test() -> dict:
    """Three toy programs with known region counts, one with a planted violation."""
    global DRIVER
    res = {}
    saved = DRIVER

    def explore(prog, decl):
        global DRIVER
        d = Driver()
        DRIVER = d
        outs = []
        while True:
            d.start_path()
            vs = decl(d)
            outs.append((prog(*vs), d.pc_expr()))
            d.end_path()
            if not d.next_prefix():
                break
        # closure
        s = z3.Solver()
        for c in d.domain:
            s.add(c)
        s.add(z3.Not(z3.Or([p for _, p in outs])))
        return outs, s.check() == z3.unsat

    try:
        # 1. ordering of three reals: 3! strict orders + ties -> regions under `<` comparisons = 6
        def p1(a, b, c):
            return tuple(sorted(range(3), key=lambda i: 0) if False else _order3(a, b, c))
        o1, c1 = explore(lambda a, b, c: _order3(a, b, c),
                         lambda d: [SymReal(d.declare(n, 'real', 0, 1)) for n in 'abc'])
        res['order3_regions'] = len(o1)
        res['order3_closed'] = c1
        # 2. int range forks: range(n) for n in [0,4] -> 5 regions
        o2, c2 = explore(lambda n: len(list(range(n))), lambda d: [SymInt(d.declare('n', 'int', 0, 4))])
        res['range_regions'] = sorted(x for x, _ in o2)
        res['range_closed'] = c2
        # 3. planted violation: claim max(a,b) == a is violated exactly when b > a
        o3, c3 = explore(lambda a, b: (a if a >= b else b), lambda d: [SymReal(d.declare(n, 'real', 0, 1)) for n in 'ab'])
        viol = 0
        for val, pc in o3:
            s = z3.Solver()
            s.add(pc, z3.Real('a') >= 0, z3.Real('b') <= 1, z3.Not(val.e == z3.Real('a')))
            if s.check() == z3.sat:
                viol += 1
        res['planted_found'] = viol
        ok = (res['order3_regions'] == 6 and c1 and res['range_regions'] == [0, 1, 2, 3, 4] and c2 and viol == 1 and c3)
        res['ok'] = ok
        if not ok:
            raise HarnessError(f'engine self-test failed: {res}')
        return res
    finally:
        DRIVER = saved


def _order3(a, b, c):
    xs = [('a', a), ('b', b), ('c', c)]
    # insertion sort with strict <, ties keep insertion order
    out = []
    for x in xs:
        i = len(out)
        while i > 0 and x[1] < out[i - 1][1]:
            i -= 1
        out.insert(i, x)
    return tuple(n for n, _ in out)
